"""Overlay engine: applies the contract fragments of contracts/*.vc to a copy of /repo/src.

Every edit is an insertion at an offset of the ORIGINAL text, located structurally
(item, fn signature, n-th loop of a fn) or - for proof hints - by a whitespace-insensitive
text anchor inside one fn body.  The only non-insertion edits are the listed E2 rewrites:
  E2-b  `-> T`            => `-> (r: T)`            (sig ret=<name>)
  E2-c  `for p in EXPR`   => `for p in it: EXPR`    (loop label=<it>; an insertion of ` it:`)
  E2-d  `for p in EXPR {` => `let mut it = EXPR; loop INV { let p = match it.next() {None => break, Some(x) => x};`
  E2-a  `field:`          => `pub field:`           (pubfields; an insertion of `pub `)
`strip()` removes every inserted span and undoes the replacements; run.py asserts that the
result is byte-identical to the original file (fidelity check) on every run.
"""
import re
import os
from rustlex import FileStruct, lex


class Fragment:
    def __init__(self, fid, file, kind, own, text, seq, src_line):
        self.id, self.file, self.kind, self.own, self.text, self.seq = fid, file, kind, own, text, seq
        self.src_line = src_line      # line in the .vc file
        self.status = "pending"       # applied | lost:<reason>
        self.final_start = None       # offset in annotated text
        self.final_lines = None       # (first, last) 1-based lines in annotated file
        self.optional = False
        self.fn = None                # selector of the fn it belongs to


TAG_RE = re.compile(r"//@\s*([A-Za-z0-9_., -]+)\s*$")


def parse_vc(path):
    """returns list of directive dicts"""
    out = []
    cur = None
    cur_file = None
    with open(path, encoding="utf-8") as f:
        lines = f.read().split("\n")
    for ln, line in enumerate(lines, 1):
        if line.startswith("=== "):
            if cur:
                out.append(cur)
            head = line[4:].strip()
            cur = {"head": head, "body": [], "line": ln, "vc": os.path.basename(path)}
            if head.startswith("file "):
                cur_file = head[5:].strip()
            cur["file"] = cur_file
        elif line.startswith("==#"):
            continue  # comment line in the .vc file
        else:
            if cur is not None:
                cur["body"].append(line)
    if cur:
        out.append(cur)
    return out


def kv(parts):
    d = {}
    rest = []
    for p in parts:
        if "=" in p and not p.startswith("="):
            k, v = p.split("=", 1)
            d[k] = v
        else:
            rest.append(p)
    return d, rest


def anchor_regex(text):
    text = text.strip()
    parts = re.split(r"\s+", text)
    return re.compile(r"\s*".join(re.escape(p) for p in parts))


class FileOverlay:
    def __init__(self, relpath, src):
        self.relpath, self.src = relpath, src
        self.fs = FileStruct(src)
        self.inserts = []     # (offset, seq, text, fragment)
        self.replaces = []    # (start, end, text, fragment, kind)
        self.fragments = []
        self.edits_e2 = []    # descriptions of non-insertion edits
        self.lost = []

    def ins(self, off, frag, text=None):
        self.inserts.append((off, frag.seq, frag.text if text is None else text, frag))

    def line_start(self, off):
        return self.src.rfind("\n", 0, off) + 1

    def line_end(self, off):
        j = self.src.find("\n", off)
        return len(self.src) if j < 0 else j + 1

    def render(self):
        """apply edits; returns annotated text; fills fragment.final_lines"""
        events = []
        for off, seq, text, frag in self.inserts:
            events.append((off, 1, seq, "ins", text, frag, off))
        for a, b, text, frag, kind in self.replaces:
            events.append((a, 0, frag.seq, "rep", text, frag, b))
        events.sort(key=lambda e: (e[0], e[1], e[2]))
        out = []
        pos = 0
        cur_len = 0
        spans = []  # (final_start, final_end, frag, kind, orig_text)
        for off, _, _, kind, text, frag, b in events:
            if off < pos:
                raise ValueError(f"overlapping edits in {self.relpath} at {off} ({frag.id})")
            out.append(self.src[pos:off]); cur_len += off - pos
            if kind == "ins":
                spans.append((cur_len, cur_len + len(text), frag, "ins", ""))
                out.append(text); cur_len += len(text)
                pos = off
            else:
                spans.append((cur_len, cur_len + len(text), frag, "rep", self.src[off:b]))
                out.append(text); cur_len += len(text)
                pos = b
        out.append(self.src[pos:])
        final = "".join(out)
        # piecewise map original offset -> final offset (for an original char that survives)
        self._map = []
        delta = 0
        for off, _, _, kind, text, frag, b in events:
            if kind == "ins":
                delta += len(text)
                self._map.append((off, delta))
            else:
                delta += len(text) - (b - off)
                self._map.append((b, delta))
        # line numbers
        nl = [i for i, c in enumerate(final) if c == "\n"]
        import bisect

        def line_of(o):
            return bisect.bisect_left(nl, o) + 1
        for (a, b, frag, kind, orig) in spans:
            la, lb = line_of(a), line_of(max(a, b - 1))
            if frag.final_lines is None:
                frag.final_lines = (la, lb)
                frag.final_start = a
            else:
                frag.final_lines = (min(la, frag.final_lines[0]), max(lb, frag.final_lines[1]))
        self.spans = spans
        self.final = final
        return final

    def strip(self):
        """inverse of render: remove inserted spans, undo replacements"""
        out = []
        pos = 0
        for (a, b, frag, kind, orig) in sorted(self.spans, key=lambda s: s[0]):
            out.append(self.final[pos:a])
            if kind == "rep":
                out.append(orig)
            pos = b
        out.append(self.final[pos:])
        return "".join(out)

    def to_final(self, off):
        d = 0
        for o, delta in self._map:
            if o <= off:
                d = delta
            else:
                break
        return off + d

    def final_fn_ranges(self):
        """[(first_line, last_line, selector)] of every fn of the original file, in annotated-file lines"""
        res = []
        for f in self.fs.fns:
            a = self.final.count("\n", 0, self.to_final(f.item.text_start)) + 1
            b = self.final.count("\n", 0, self.to_final(f.item.end)) + 1
            sel = f.name
            if f.owner is not None:
                sel = (f.owner.trait + " for " if f.owner.trait else "") + f.owner.name + "::" + f.name
            res.append((a, b, sel))
        return res


class Overlay:
    def __init__(self, repo_src, vc_paths):
        self.repo_src = repo_src
        self.files = {}
        self.fragments = []
        self.problems = []      # fatal problems (function under contract not found ...)
        self.lost = []          # non fatal lost anchors
        self.e2 = []
        seq = 0
        self._contract_fns = []
        for p in vc_paths:
            for d in parse_vc(p):
                seq += 1
                self.apply_directive(d, seq)
        self.strip_log_macros(seq + 1)

    LOG_MACROS = ("trace", "debug", "info", "warn", "error")

    def strip_log_macros(self, seq):
        """E2-f: statements that are a call of a `log` macro inside a function under contract are dropped from the
        verified text (Verus rejects the macros' expansion; logging has no effect on any property)"""
        from rustlex import match_close
        for rel, fn, sel in self._contract_fns:
            fo = self.files[rel]
            toks = fo.fs.toks
            k = fn.body_open_tok + 1
            while k < fn.body_close_tok:
                t = toks[k]
                if t.kind == "id" and t.text in self.LOG_MACROS and toks[k + 1].text == "!" and toks[k + 2].text in ("(", "[", "{"):
                    prev = toks[k - 1].text
                    if prev in ("{", "}", ";"):
                        c = match_close(toks, k + 2)
                        end = toks[c].end
                        if c + 1 < len(toks) and toks[c + 1].text == ";":
                            end = toks[c + 1].end
                        d = {"file": rel, "vc": "(engine)", "line": 0}
                        fr = self.new_frag(d, "logmacro", [], "/* log macro call dropped from the verified text (E2-f) */", seq, sel)
                        if not any(a <= t.start < b for a, b, _, _, _ in fo.replaces):
                            fo.replaces.append((t.start, end, fr.text, fr, "E2-f"))
                            fr.status = "applied"
                            self.e2.append(f"E2-f {rel}: {sel}: `{fo.src[t.start:end][:60]}` dropped from the verified text")
                        k = c
                k += 1

    def fo(self, rel):
        if rel not in self.files:
            path = os.path.join(self.repo_src, rel)
            with open(path, encoding="utf-8") as f:
                self.files[rel] = FileOverlay(rel, f.read())
        return self.files[rel]

    def new_frag(self, d, kind, own, text, seq, fn=None, suffix=""):
        fid = f"{d['file']}:{fn + ':' if fn else ''}{kind}{suffix}"
        n = sum(1 for f in self.fragments if f.id == fid or f.id.startswith(fid + "#"))
        if n:
            fid = f"{fid}#{n + 1}"
        fr = Fragment(fid, d["file"], kind, own, text, seq, f"{d['vc']}:{d['line']}")
        fr.fn = fn
        self.fragments.append(fr)
        return fr

    def apply_directive(self, d, seq):
        head = d["head"]
        body = "\n".join(d["body"]).strip("\n")
        if head.startswith("file "):
            return
        if d["file"] is None:
            raise ValueError(f"{d['vc']}:{d['line']}: directive before any `=== file`")
        try:
            fo = self.fo(d["file"])
        except FileNotFoundError:
            self.problems.append(f"source file {d['file']} not found")
            return
        src = fo.src
        if head.startswith("fn "):
            sel, rest = head[3:].split(" @ ", 1)
            sel = sel.strip()
            parts = rest.split()
            kind = parts[0]
            opts, pos = kv(parts[1:])
            own = [x for x in opts.get("own", "").split(",") if x]
            optional = "optional" in pos
            fns = fo.fs.find_fn(sel)
            if len(fns) != 1:
                fr = self.new_frag(d, kind, own, body, seq, sel)
                fr.status = f"lost:fn {sel} matched {len(fns)} times"
                (self.lost if optional else self.problems).append(f"{fr.id}: {fr.status}")
                return
            fn = fns[0]
            if kind == "sig" and not any(x[0] == d["file"] and x[2] == sel for x in self._contract_fns):
                self._contract_fns.append((d["file"], fn, sel))
            self.apply_fn(d, fo, fn, sel, kind, opts, pos, own, body, seq, optional)
            return
        parts = head.split()
        kind = parts[0]
        opts, pos = kv(parts[1:])
        own = [x for x in opts.get("own", "").split(",") if x]
        if kind == "prelude":
            # after the //! header (inner doc comments and blank lines)
            lines = src.split("\n")
            k = 0
            off = 0
            while k < len(lines) and (lines[k].startswith("//!") or lines[k].strip() == "" or lines[k].startswith("#![")):
                off += len(lines[k]) + 1
                k += 1
            fr = self.new_frag(d, "prelude", own, body + "\n", seq)
            fo.ins(off, fr); fr.status = "applied"
            return
        if kind in ("wrap", "item-before", "item-after"):
            ikind = pos[0]
            name = pos[1] if len(pos) > 1 and pos[1] != "-" else None
            items = fo.fs.find_items(ikind, name, opts.get("trait"))
            n = int(opts.get("n", "1"))
            if "trait" not in opts and ikind == "impl":
                items = [i for i in items if not i.trait] if opts.get("inherent", "1") == "1" else items
            if len(items) < n:
                fr = self.new_frag(d, kind, own, body, seq, None, f":{ikind}:{name}")
                fr.status = f"lost:item {ikind} {name} #{n} not found"
                self.problems.append(f"{fr.id}: {fr.status}")
                return
            it = items[n - 1]
            if kind == "wrap":
                fr = self.new_frag(d, "wrap-open", own, "verus! {\n", seq, None, f":{ikind}:{name}:{n}")
                fo.ins(fo.line_start(it.text_start), fr); fr.status = "applied"
                fr2 = self.new_frag(d, "wrap-close", own, "\n} // verus!", seq, None, f":{ikind}:{name}:{n}")
                fo.ins(it.end, fr2); fr2.status = "applied"
            elif kind == "item-before":
                fr = self.new_frag(d, kind, own, body + "\n", seq, None, f":{ikind}:{name}:{n}")
                fo.ins(fo.line_start(it.attr_start), fr); fr.status = "applied"
            else:
                fr = self.new_frag(d, kind, own, "\n" + body, seq, None, f":{ikind}:{name}:{n}")
                fo.ins(it.end, fr); fr.status = "applied"
            return
        if kind == "pubfields":
            sname = pos[0]
            fields = pos[1:]
            items = fo.fs.find_items("struct", sname)
            if len(items) != 1 or items[0].body_open is None:
                self.problems.append(f"{d['file']}: struct {sname} not found for pubfields")
                return
            it = items[0]
            toks = fo.fs.toks
            done = []
            depth = 0
            for j in range(it.body_open, it.body_close + 1):
                t = toks[j]
                if t.text in ("{", "(", "["):
                    depth += 1
                elif t.text in ("}", ")", "]"):
                    depth -= 1
                elif depth == 1 and t.kind == "id" and t.text in fields and toks[j + 1].text == ":" and toks[j - 1].text in ("{", ","):
                    fr = self.new_frag(d, "pubfield", own, "pub ", seq, None, f":{sname}.{t.text}")
                    fo.ins(t.start, fr); fr.status = "applied"
                    done.append(t.text)
            self.e2.append(f"E2-a {d['file']}: fields of {sname} made pub: {', '.join(done)}")
            missing = [f for f in fields if f not in done]
            if missing:
                self.lost.append(f"{d['file']}: pubfields {sname}: not found or already pub: {missing}")
            return
        raise ValueError(f"{d['vc']}:{d['line']}: unknown directive {head!r}")

    def apply_fn(self, d, fo, fn, sel, kind, opts, pos, own, body, seq, optional):
        src = fo.src

        def lost(fr, why):
            fr.status = "lost:" + why
            (self.lost if optional else self.problems).append(f"{fr.id}: {why}")

        def indent_of(off):
            ls = fo.line_start(off)
            m = re.match(r"[ \t]*", src[ls:])
            return m.group(0)

        if kind == "attr":
            fr = self.new_frag(d, kind, own, "", seq, sel)
            ind = indent_of(fn.item.decl_start)
            fr.text = "".join(ind + l.strip() + "\n" for l in body.split("\n") if l.strip())
            fo.ins(fo.line_start(fn.item.attr_start), fr); fr.status = "applied"
            return
        if kind == "sig":
            fr = self.new_frag(d, kind, own, "\n" + body + "\n", seq, sel)
            if "ret" in opts:
                if fn.ret_span is None:
                    # fn returning (): insert ` -> (r: ())` is not needed; Verus has no result to name
                    lost(fr, "no return type to name"); return
                a, b = fn.ret_span
                fr2 = self.new_frag(d, "ret", own, f"({opts['ret']}: {src[a:b]})", seq, sel)
                fo.replaces.append((a, b, fr2.text, fr2, "E2-b")); fr2.status = "applied"
                self.e2.append(f"E2-b {d['file']}: {sel}: return type `{src[a:b]}` named `{opts['ret']}`")
            fo.ins(fn.body_open, fr); fr.status = "applied"
            return
        if kind == "mutself":
            # E2-g: `fn f(mut self, ..) { B }`  =>  `fn f(self, ..) { let mut __self = self; B[self := __self] }`
            # (the language-defined meaning of a `mut` binding of the receiver; Verus rejects `mut self`)
            toks = fo.fs.toks
            nm = opts.get("name", "__self")
            k = fn.params_open + 1
            fr = self.new_frag(d, kind, own, "", seq, sel)
            if not (toks[k].text == "mut" and toks[k + 1].text == "self"):
                lost(fr, f"fn {sel} has no `mut self` receiver"); return
            fo.replaces.append((toks[k].start, toks[k + 1].start, "", fr, "E2-g")); fr.status = "applied"
            cnt = 0
            for j in range(fn.body_open_tok + 1, fn.body_close_tok):
                if toks[j].text == "self" and toks[j].kind in ("id", "kw", "ident"):
                    frj = self.new_frag(d, "mutself-use", own, nm, seq, sel)
                    fo.replaces.append((toks[j].start, toks[j].end, nm, frj, "E2-g")); frj.status = "applied"
                    cnt += 1
            ind = indent_of(fn.item.decl_start)
            fr3 = self.new_frag(d, "mutself-let", own, f"\n{ind}    let mut {nm} = self;  // E2-g", seq, sel)
            fo.ins(fn.body_open + 1, fr3); fr3.status = "applied"
            self.e2.append(f"E2-g {d['file']}: {sel}: `mut self` receiver rewritten to `self` + `let mut {nm} = self;`, {cnt} uses of `self` in the body renamed")
            return
        if kind == "closure":
            # annotate the n-th closure of the body (insertions only):  |x| EXPR  =>  |x: TYPE| -> (b: R) ensures .. { EXPR }
            # body of the directive:  TYPE-annotation line(s) / `---` / return spec line(s)
            from rustlex import match_close
            toks = fo.fs.toks
            n = int(pos[0])
            fr = self.new_frag(d, f"closure{n}", own, "", seq, sel)
            if "\n---\n" not in "\n" + body + "\n":
                raise ValueError(f"{d['vc']}:{d['line']}: closure needs `---` separator")
            ptype, rspec = ("\n" + body).split("\n---\n", 1)
            ptype, rspec = ptype.strip(), " ".join(x.strip() for x in rspec.split("\n") if x.strip())
            starts = [j for j in range(fn.body_open_tok + 1, fn.body_close_tok)
                      if toks[j].text == "|" and toks[j - 1].text in ("(", ",", "=", "{", ";", "return", "move")]
            if n > len(starts):
                lost(fr, f"fn {sel} has {len(starts)} closures, wanted #{n}"); return
            j = starts[n - 1]
            if not (toks[j + 1].kind == "id" and toks[j + 2].text == "|"):
                lost(fr, f"closure #{n} of {sel} is not of the form |ident| ..."); return
            if "param" in opts and toks[j + 1].text != opts["param"]:
                # the contract names the parameter `param`; the source calls it something else: follow the source
                rspec = re.sub(r"\b" + re.escape(opts["param"]) + r"\b", toks[j + 1].text, rspec)
            k = j + 3
            if toks[k].text == "{":
                lost(fr, f"closure #{n} of {sel} already has a block body"); return
            depth = 0
            e = k
            while e < fn.body_close_tok:
                t = toks[e].text
                if t in ("(", "[", "{"):
                    depth += 1
                elif t in (")", "]", "}"):
                    if depth == 0:
                        break
                    depth -= 1
                elif t in (",", ";") and depth == 0:
                    break
                e += 1
            fr.text = ptype
            fo.ins(toks[j + 1].end, fr); fr.status = "applied"
            fr2 = self.new_frag(d, f"closure{n}-spec", own, " -> " + rspec + " {", seq, sel)
            fo.ins(toks[j + 2].end, fr2); fr2.status = "applied"
            fr3 = self.new_frag(d, f"closure{n}-close", own, " }", seq, sel)
            fo.ins(toks[e - 1].end, fr3); fr3.status = "applied"
            return
        if kind == "split-call":
            # E2-h (insertions only): name the temporaries of the tail expression  RECV.method(ARGS)
            #   RECV.method(ARGS)  =>  PRE RECV MID .method(ARGS) END
            # with the three texts given in the directive body (sections separated by `--- mid` / `--- end`), e.g.
            #   let mut __it = RECV; let ghost __rem = ..; let __r = __it.method(ARGS); proof { .. } __r
            from rustlex import match_close
            toks = fo.fs.toks
            meth = opts["method"]
            secs = {"pre": [], "mid": [], "end": []}
            curs = "pre"
            for l in body.split("\n"):
                if l.strip() == "--- mid":
                    curs = "mid"
                elif l.strip() == "--- end":
                    curs = "end"
                else:
                    secs[curs].append(l)
            fr = self.new_frag(d, f"split-{meth}-pre", own, "\n".join(secs["pre"]).strip("\n"), seq, sel)
            hits = [j for j in range(fn.body_open_tok + 1, fn.body_close_tok - 2)
                    if toks[j].text == "." and toks[j + 1].text == meth and toks[j + 2].text == "("]
            if len(hits) != 1:
                lost(fr, f"fn {sel}: `.{meth}(` occurs {len(hits)} times"); return
            j = hits[0]
            a = j - 1
            depth = 0
            while a > fn.body_open_tok:
                t = toks[a].text
                if t in (")", "]", "}"):
                    depth += 1
                elif t in ("(", "[", "{"):
                    if depth == 0:
                        break
                    depth -= 1
                elif t == ";" and depth == 0:
                    break
                a -= 1
            first = a + 1
            close = match_close(toks, j + 2)
            if toks[close + 1].text != "}" or close + 1 != fn.body_close_tok:
                lost(fr, f"fn {sel}: `.{meth}(..)` is not the tail expression of the body"); return
            fo.ins(toks[first].start, fr); fr.status = "applied"
            fr2 = self.new_frag(d, f"split-{meth}-mid", own, "\n".join(secs["mid"]).strip("\n"), seq, sel)
            fo.ins(toks[j].start, fr2); fr2.status = "applied"
            fr3 = self.new_frag(d, f"split-{meth}-end", own, "\n".join(secs["end"]).strip("\n"), seq, sel)
            fo.ins(toks[close].end, fr3); fr3.status = "applied"
            self.e2.append(f"E2-h {d['file']}: {sel}: temporaries of the tail expression `{src[toks[first].start:toks[j].start]}.{meth}(..)` bound to locals (insertions only: `let mut __it = RECV; let __r = __it.{meth}(..); __r`)")
            return
        if kind == "body-start":
            fr = self.new_frag(d, kind, own, "\n" + body, seq, sel)
            fo.ins(fn.body_open + 1, fr); fr.status = "applied"
            return
        if kind == "body-end":
            fr = self.new_frag(d, kind, own, body + "\n", seq, sel)
            fo.ins(fo.line_start(fn.body_close), fr); fr.status = "applied"
            return
        if kind == "loop":
            n = int(pos[0])
            sub = pos[1] if len(pos) > 1 and pos[1] != "optional" else "header"
            loops = fn.loops()
            fr = self.new_frag(d, f"loop{n}-{sub}", own, body, seq, sel)
            if n > len(loops):
                lost(fr, f"fn {sel} has {len(loops)} loops, wanted #{n}"); return
            lp = loops[n - 1]
            if "kind" in opts and lp["kind"] != opts["kind"]:
                lost(fr, f"loop #{n} of {sel} is `{lp['kind']}`, contract expects `{opts['kind']}`"); return
            if sub == "header":
                if "label" in opts:
                    if lp["kind"] != "for":
                        lost(fr, f"loop #{n} of {sel} is not a for loop"); return
                    fr2 = self.new_frag(d, f"loop{n}-label", own, f" {opts['label']}:", seq, sel)
                    fo.ins(lp["in_end"], fr2); fr2.status = "applied"
                    self.e2.append(f"E2-c {d['file']}: {sel} loop #{n}: iterator named `{opts['label']}`")
                fr.text = "\n" + body + "\n" + indent_of(lp["kw"])
                fo.ins(lp["body_open"], fr); fr.status = "applied"
                return
            if sub == "desugar":
                if lp["kind"] != "for":
                    lost(fr, f"loop #{n} of {sel} is not a for loop"); return
                itn = opts.get("it", "__it")
                secs = {"inv": [], "first": [], "none": []}
                curs = "inv"
                for l in body.split("\n"):
                    if l.strip() == "--- first":
                        curs = "first"
                    elif l.strip() == "--- none":
                        curs = "none"
                    else:
                        secs[curs].append(l)
                pat = src[lp["pat"][0]:lp["pat"][1]]
                expr = src[lp["expr"][0]:lp["expr"][1]]
                ind = indent_of(lp["kw"])
                none_proof = "\n".join(secs["none"]).strip()
                text = (f"let mut {itn} = {expr};  // E2-d: language-defined desugaring of `for {pat} in {expr}`\n"
                        f"{ind}loop\n" + "\n".join(secs["inv"]) + f"\n{ind}{{\n" + "\n".join(secs["first"]) +
                        f"\n{ind}    let {pat} = match {itn}.next() {{ None => {{ {none_proof} break }}, Some(__a) => __a }};")
                fr.text = text
                fo.replaces.append((lp["kw"], lp["body_open"] + 1, text, fr, "E2-d")); fr.status = "applied"
                self.e2.append(f"E2-d {d['file']}: {sel} loop #{n}: `for {pat} in {expr}` rewritten to `let mut {itn} = {expr}; loop {{ let {pat} = match {itn}.next() {{ None => break, Some(x) => x }}; .. }}`")
                return
            if sub == "body-start":
                fr.text = "\n" + body
                fo.ins(lp["body_open"] + 1, fr); fr.status = "applied"; return
            if sub == "body-end":
                fr.text = body + "\n"
                fo.ins(fo.line_start(lp["body_close"]), fr); fr.status = "applied"; return
            if sub == "before":
                fr.text = body + "\n"
                fo.ins(fo.line_start(lp["stmt_start"]), fr); fr.status = "applied"; return
            if sub == "after":
                fr.text = "\n" + body
                fo.ins(lp["end"], fr); fr.status = "applied"; return
            raise ValueError(f"{d['vc']}:{d['line']}: unknown loop sub-directive {sub}")
        if kind in ("at-before", "at-after"):
            if "\n---\n" in "\n" + body + "\n":
                anchor, ins = ("\n" + body).split("\n---\n", 1)
            else:
                raise ValueError(f"{d['vc']}:{d['line']}: at-before/at-after needs `---` separator")
            fr = self.new_frag(d, kind, own, ins, seq, sel)
            fr.optional = optional
            rx = anchor_regex(anchor)
            a, b = fn.body_open, fn.body_close
            ms = [m for m in rx.finditer(src, a, b)]
            occ = int(opts.get("occ", "1"))
            if "occ" not in opts and len(ms) != 1:
                lost(fr, f"text anchor matched {len(ms)} times in {sel}: {anchor.strip()[:50]!r}"); return
            if occ < 0:
                occ = len(ms) + 1 + occ
            if occ < 1 or occ > len(ms):
                lost(fr, f"text anchor occurrence {occ} of {len(ms)} in {sel}: {anchor.strip()[:50]!r}"); return
            m = ms[occ - 1]
            if kind == "at-before":
                fr.text = ins + "\n"
                fo.ins(fo.line_start(m.start()), fr)
            else:
                fr.text = ins + "\n"
                fo.ins(fo.line_end(m.end() - 1), fr)
            fr.status = "applied"
            return
        raise ValueError(f"{d['vc']}:{d['line']}: unknown fn directive {kind}")

    def materialise(self, out_src):
        """write annotated files under out_src (a copy of repo src must already be there)"""
        report = {}
        for rel, fo in self.files.items():
            final = fo.render()
            assert fo.strip() == fo.src, f"fidelity check failed for {rel}"
            with open(os.path.join(out_src, rel), "w", encoding="utf-8") as f:
                f.write(final)
            report[rel] = fo
        return report

    def line_tags(self):
        """{(file, line): (fragment, [own tags of that line])} for every inserted line"""
        res = {}
        for fr in self.fragments:
            if fr.status != "applied" or fr.final_lines is None:
                continue
            lines = fr.text.split("\n")
            # fr.final_start is at the line fr.final_lines[0]; text lines follow
            first = fr.final_lines[0]
            for k, l in enumerate(lines):
                m = TAG_RE.search(l)
                tags = list(fr.own)
                if m:
                    tags = [x for x in re.split(r"[,\s]+", m.group(1)) if x]
                key = (fr.file, first + k)
                minor = (fr.kind.startswith("closure") and not fr.kind.endswith("-spec")) or (fr.kind.startswith("split-") and k == 0)   # `: TYPE` / ` }` / `;` share the line with the spec
                if key not in res or (l.strip() and not minor):
                    res[key] = (fr, tags, l.strip())
        return res
