"""Minimal Rust lexer and structure finder used by the overlay engine.

It does not parse Rust; it finds, by token structure only,
  * top-level items of a file (and the fn items directly inside impl blocks),
  * for a fn: signature pieces (return type span, where clause, body braces),
  * for a fn body: the loops in source order (for / while / loop) with header and body spans.
Offsets are byte^H^H^H^Hcharacter offsets into the *original* text, so that every edit of the
overlay can be expressed as an insertion (or a listed replacement) at an original offset.
"""
import re

ID_RE = re.compile(r"[^\W\d]\w*", re.UNICODE)
NUM_RE = re.compile(r"\d[\w.]*")


class Tok:
    __slots__ = ("kind", "text", "start", "end")

    def __init__(self, kind, text, start, end):
        self.kind, self.text, self.start, self.end = kind, text, start, end

    def __repr__(self):
        return f"Tok({self.kind},{self.text!r},{self.start})"


def lex(s):
    """tokens: kind in {id, num, str, char, life, punct}; comments and whitespace are skipped"""
    toks = []
    i, n = 0, len(s)
    while i < n:
        c = s[i]
        if c.isspace():
            i += 1
            continue
        if s.startswith("//", i):
            j = s.find("\n", i)
            i = n if j < 0 else j
            continue
        if s.startswith("/*", i):
            depth, j = 1, i + 2
            while j < n and depth:
                if s.startswith("/*", j):
                    depth += 1; j += 2
                elif s.startswith("*/", j):
                    depth -= 1; j += 2
                else:
                    j += 1
            i = j
            continue
        # raw strings / byte strings
        m = re.match(r"(?:b|c)?r(#*)\"", s[i:i + 40])
        if m and (i == 0 or not (s[i - 1].isalnum() or s[i - 1] == "_")):
            hashes = m.group(1)
            close = '"' + hashes
            j = s.find(close, i + m.end())
            j = n if j < 0 else j + len(close)
            toks.append(Tok("str", s[i:j], i, j)); i = j
            continue
        if c == '"' or (c in "bc" and i + 1 < n and s[i + 1] == '"' and (i == 0 or not (s[i - 1].isalnum() or s[i - 1] == "_"))):
            j = i + (1 if c == '"' else 2)
            while j < n and s[j] != '"':
                j += 2 if s[j] == "\\" else 1
            j += 1
            toks.append(Tok("str", s[i:j], i, j)); i = j
            continue
        if c == "'" or (c == "b" and i + 1 < n and s[i + 1] == "'"):
            k = i + (1 if c == "'" else 2)
            if k < n and s[k] == "\\":
                j = k + 2
                while j < n and s[j] != "'":
                    j += 1
                j += 1
                toks.append(Tok("char", s[i:j], i, j)); i = j
                continue
            if k + 1 < n and s[k + 1] == "'":
                toks.append(Tok("char", s[i:k + 2], i, k + 2)); i = k + 2
                continue
            m = ID_RE.match(s, k)
            if m:
                toks.append(Tok("life", s[i:m.end()], i, m.end())); i = m.end()
                continue
            toks.append(Tok("punct", c, i, i + 1)); i += 1
            continue
        m = ID_RE.match(s, i)
        if m:
            toks.append(Tok("id", m.group(0), i, m.end())); i = m.end()
            continue
        m = NUM_RE.match(s, i)
        if m:
            toks.append(Tok("num", m.group(0), i, m.end())); i = m.end()
            continue
        for p in ("->", "=>", "::"):
            if s.startswith(p, i):
                toks.append(Tok("punct", p, i, i + 2)); i += 2
                break
        else:
            toks.append(Tok("punct", c, i, i + 1)); i += 1
    return toks


OPEN = {"(": ")", "[": "]", "{": "}"}
CLOSE = {")", "]", "}"}


def match_close(toks, k):
    """index of the token closing the bracket opened at toks[k]"""
    depth = 0
    for j in range(k, len(toks)):
        t = toks[j]
        if t.kind == "punct":
            if t.text in OPEN:
                depth += 1
            elif t.text in CLOSE:
                depth -= 1
                if depth == 0:
                    return j
    raise ValueError("unbalanced bracket at offset %d" % toks[k].start)


class Item:
    """a top-level (or impl-level) item: token range [a, b] inclusive"""

    def __init__(self, src, toks, a, b, text_start):
        self.src, self.toks, self.a, self.b = src, toks, a, b
        self.text_start = text_start              # start incl. preceding comments/attributes
        self.end = toks[b].end
        # skip attributes
        k = a
        while k <= b and toks[k].text == "#":
            k2 = k + 1
            if toks[k2].text == "!":
                k2 += 1
            k = match_close(toks, k2) + 1
        self.decl_tok = k                         # first token after the attributes
        self.attr_start = toks[a].start           # start of the first attribute (or of the decl)
        self.decl_start = toks[k].start if k <= b else self.end
        kk = k
        while kk <= b and (toks[kk].text in ("pub", "unsafe", "async", "default", "extern") or toks[kk].kind == "str"
                           or (toks[kk].text == "const" and kk + 1 <= b and toks[kk + 1].text in ("fn", "unsafe", "async", "extern"))):
            if toks[kk].text == "pub" and kk + 1 <= b and toks[kk + 1].text == "(":
                kk = match_close(toks, kk + 1) + 1
            else:
                kk += 1
        self.kw_tok = kk
        self.kind = toks[kk].text if kk <= b else ""
        self.name = ""
        self.trait = ""
        self.body_open = self.body_close = None   # token indexes of { }
        for j in range(kk, b + 1):
            if toks[j].text in ("(", "["):
                continue
            if toks[j].text == "{":
                self.body_open = j
                self.body_close = match_close(toks, j)
                break
            if toks[j].text == ";":
                break
        if self.kind in ("fn", "struct", "enum", "mod", "trait", "type", "const", "static", "union"):
            if kk + 1 <= b:
                self.name = toks[kk + 1].text
        elif self.kind == "impl":
            hdr_end = self.body_open if self.body_open is not None else b
            self.name, self.trait = _impl_names(toks, kk + 1, hdr_end)
        elif self.kind == "macro_rules":
            if kk + 2 <= b:
                self.name = toks[kk + 2].text

    @property
    def header(self):
        e = self.toks[self.body_open].start if self.body_open is not None else self.end
        return self.src[self.decl_start:e]

    def line_start(self, off):
        j = self.src.rfind("\n", 0, off)
        return j + 1


def _skip_angles(toks, k, end):
    """toks[k] is '<': return index after the matching '>' (-> is a single token, so '>' is unambiguous here)"""
    depth = 0
    j = k
    while j < end:
        t = toks[j].text
        if t == "<":
            depth += 1
        elif t == ">":
            depth -= 1
            if depth == 0:
                return j + 1
        elif t in OPEN:
            j = match_close(toks, j)
        j += 1
    return end


def _type_last_segment(toks, k, end):
    """last path segment identifier of the type starting at toks[k] (ignoring generics, & and lifetimes)"""
    name = ""
    j = k
    while j < end:
        t = toks[j]
        if t.text == "<":
            j = _skip_angles(toks, j, end)
            continue
        if t.text in ("for", "where"):
            break
        if t.kind == "id" and t.text not in ("dyn", "mut", "const", "crate", "self", "super"):
            name = t.text
        j += 1
    return name


def _impl_names(toks, k, end):
    if k < end and toks[k].text == "<":
        k = _skip_angles(toks, k, end)
    # find ` for ` at angle depth 0
    depth = 0
    for_at = None
    j = k
    while j < end:
        t = toks[j].text
        if t == "<":
            depth += 1
        elif t == ">":
            depth -= 1
        elif t == "where" and depth == 0:
            end = j
            break
        elif t == "for" and depth == 0 and not (j + 1 < end and toks[j + 1].text == "<"):
            for_at = j
        j += 1
    if for_at is None:
        return _type_last_segment(toks, k, end), ""
    return _type_last_segment(toks, for_at + 1, end), _type_last_segment(toks, k, for_at)


def split_items(src, toks, a, b, text_from):
    """items among toks[a..b) (all at the same nesting level)"""
    items = []
    k = a
    prev_end = text_from
    while k < b:
        start = k
        # find item end
        j = k
        end_tok = None
        kw = None
        while j < b:
            t = toks[j]
            if t.text == "#" and j + 1 < b and toks[j + 1].text in ("[", "!"):
                j2 = j + 1 + (1 if toks[j + 1].text == "!" else 0)
                j = match_close(toks, j2) + 1
                continue
            if kw is None and t.kind == "id" and t.text not in ("pub", "unsafe", "async", "default", "extern", "crate"):
                kw = t.text
            if t.text == "(" or t.text == "[":
                j = match_close(toks, j) + 1
                continue
            if t.text == ";":
                end_tok = j
                break
            if t.text == "{":
                c = match_close(toks, j)
                if kw in ("const", "static", "type", "let", "use") and not (kw == "const" and _is_const_fn(toks, start, j)):
                    j = c + 1
                    continue
                end_tok = c
                # `struct X {..}` / fn / impl / mod end here; a trailing ';' after a macro invocation is absorbed
                if c + 1 < b and toks[c + 1].text == ";" and kw not in ("fn", "impl", "mod", "struct", "enum", "trait", "union"):
                    end_tok = c + 1
                break
            j += 1
        if end_tok is None:
            end_tok = b - 1
        # text start: first non-space char after prev_end
        ts = prev_end
        while ts < len(src) and src[ts].isspace():
            ts += 1
        # inner doc comments (//! ...) belong to the enclosing module, not to the item
        while src.startswith("//!", ts):
            nlp = src.find("\n", ts)
            ts = len(src) if nlp < 0 else nlp + 1
            while ts < len(src) and src[ts].isspace():
                ts += 1
        ts = min(ts, toks[start].start)
        items.append(Item(src, toks, start, end_tok, ts))
        prev_end = toks[end_tok].end
        k = end_tok + 1
    return items


def _is_const_fn(toks, a, b):
    return any(toks[j].text == "fn" for j in range(a, b))


class FnInfo:
    def __init__(self, src, toks, item, owner=None):
        self.src, self.toks, self.item, self.owner = src, toks, item, owner
        self.name = item.name
        k = item.kw_tok + 2
        if toks[k].text == "<":
            k = _skip_angles(toks, k, item.b + 1)
        assert toks[k].text == "(", f"fn {self.name}: expected ( at {toks[k].start}"
        self.params_open = k
        self.params_close = match_close(toks, k)
        k = self.params_close + 1
        self.ret_span = None
        self.body_open_tok, self.body_close_tok = item.body_open, item.body_close
        if self.body_open_tok is None:
            raise ValueError(f"fn {self.name} has no body")
        if toks[k].text == "->":
            j = k + 1
            while j < self.body_open_tok and toks[j].text != "where":
                j += 1
            self.ret_span = (toks[k + 1].start, toks[j - 1].end)
        self.body_open = toks[self.body_open_tok].start    # offset of '{'
        self.body_close = toks[self.body_close_tok].start  # offset of '}'
        self.decl_line_start = item.line_start(item.decl_start)
        self.attr_line_start = item.line_start(item.attr_start)

    def loops(self):
        """loops in the body in source order"""
        toks = self.toks
        res = []
        k = self.body_open_tok + 1
        end = self.body_close_tok
        while k < end:
            t = toks[k]
            if t.kind == "id" and t.text in ("for", "while", "loop") and not (t.text == "for" and toks[k + 1].text == "<"):
                prev = toks[k - 1].text if k > 0 else ""
                if prev in (".", "::"):
                    k += 1
                    continue
                info = {"kind": t.text, "kw": t.start, "kw_tok": k}
                j = k + 1
                if t.text == "for":
                    in_tok = None
                    while j < end:
                        tt = toks[j]
                        if tt.text in ("(", "["):
                            j = match_close(toks, j) + 1
                            continue
                        if tt.kind == "id" and tt.text == "in":
                            in_tok = j
                            break
                        j += 1
                    if in_tok is None:
                        k += 1
                        continue
                    info["pat"] = (toks[k + 1].start, toks[in_tok - 1].end)
                    info["in_end"] = toks[in_tok].end
                    j = in_tok + 1
                # body '{': first '{' at relative depth 0
                body = None
                while j < end:
                    tt = toks[j]
                    if tt.text in ("(", "["):
                        j = match_close(toks, j) + 1
                        continue
                    if tt.text == "{":
                        body = j
                        break
                    j += 1
                if body is None:
                    k += 1
                    continue
                if t.text == "for":
                    info["expr"] = (toks[in_tok + 1].start, toks[body - 1].end)
                info["body_open"] = toks[body].start
                bc = match_close(toks, body)
                info["body_close"] = toks[bc].start
                info["end"] = toks[bc].end
                # an optional loop label  'a: loop
                info["stmt_start"] = t.start
                if k >= 2 and toks[k - 1].text == ":" and toks[k - 2].kind == "life":
                    info["stmt_start"] = toks[k - 2].start
                res.append(info)
            k += 1
        return res


class FileStruct:
    def __init__(self, src):
        self.src = src
        self.toks = lex(src)
        self.items = split_items(src, self.toks, 0, len(self.toks), 0)
        self.fns = []
        for it in self.items:
            if it.kind == "fn":
                self.fns.append(FnInfo(src, self.toks, it, None))
            elif it.kind == "impl" and it.body_open is not None:
                sub = split_items(src, self.toks, it.body_open + 1, it.body_close, self.toks[it.body_open].end)
                for s in sub:
                    if s.kind == "fn" and s.body_open is not None:
                        self.fns.append(FnInfo(src, self.toks, s, it))

    def find_fn(self, selector):
        """selector: name | Type::name | Trait for Type::name ; returns list of matches"""
        trait = typ = None
        sel = selector.strip()
        if " for " in sel:
            trait, sel = sel.split(" for ", 1)
            trait = trait.strip()
        if "::" in sel:
            typ, name = sel.rsplit("::", 1)
        else:
            name = sel
        out = []
        for f in self.fns:
            if f.name != name:
                continue
            if typ is not None and (f.owner is None or f.owner.name != typ):
                continue
            if typ is None and trait is None and f.owner is not None and "::" not in selector:
                # a bare name selects free functions only
                continue
            if trait is not None and (f.owner is None or f.owner.trait != trait):
                continue
            out.append(f)
        return out

    def find_items(self, kind, name=None, trait=None):
        out = []
        for it in self.items:
            if it.kind != kind:
                continue
            if name is not None and it.name != name:
                continue
            if trait is not None and it.trait != trait:
                continue
            out.append(it)
        return out

    def fn_at(self, off):
        for f in self.fns:
            if f.item.text_start <= off <= f.item.end:
                return f
        return None
