#!/bin/bash
# development-time: run every registered quick check on each behaviour-preserving refactoring in harmless/ (private repo copy via VERIF_REPO)
cd "$(dirname "$0")/.."
ids="$@"; [ -z "$ids" ] && ids=$(ls harmless)
./setup.sh >/dev/null
for k in $ids; do echo "=== $k"; python3 fw/seed_eval.py harmless/$k --no-confirm 2>&1 | grep -E "^C[0-9]+ [0-9]|VIOLATION|UNDECIDED prop|^ *OK |refusing|does not apply" | cut -c1-200; done
