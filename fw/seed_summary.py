#!/usr/bin/env python3
"""development-time: write seeded/SUMMARY.md from the seeded/*/meta.json evaluation records"""
import json, os, glob
V = os.path.dirname(os.path.dirname(os.path.abspath(__file__)))
rows = []
for d in sorted(glob.glob(os.path.join(V, "seeded", "*", "meta.json"))):
    m = json.load(open(d))
    res = m.get("checks_on_patched_repo", {})
    det = sorted(p for p, r in res.items() if r["exit"] == 1)
    wit = sorted(p for p, r in res.items() if r["exit"] == 1 and not any("no-failing-input-found" in l for l in r["lines"]))
    und = sorted(p for p, r in res.items() if r["exit"] == 2)
    ok = sorted(p for p, r in res.items() if r["exit"] == 0 and any(l.startswith("OK") for l in r["lines"]))
    pno = sorted(p for p, r in res.items() if r["exit"] == 0 and not any(l.startswith("OK") for l in r["lines"]))
    target = m.get("breaks_property")
    verdict = "caught (with failing input)" if target in wit else "caught (failed obligation, no input)" if target in det else "undecided" if target in und else "MISSED" if target in ok else "not evaluated"
    rows.append((m.get("id"), target, m.get("needs_to_manifest", "").replace("|", "&#124;"), verdict, ", ".join(f"{p}{'*' if p in wit else ''}" for p in det), ", ".join(und + [x + " (proof not obtained, bounded search clean)" for x in pno]), ", ".join(ok), "yes" if m.get("confirmed") else "no" if m.get("confirmed") is False else "?", m.get("evaluated_at", {})))
with open(os.path.join(V, "seeded", "SUMMARY.md"), "w") as f:
    f.write("# Seeded changes: which check reports what\n\n`*` = VIOLATION with a concrete failing input re-executed against the real code; without `*` the VIOLATION names the failed proof obligation only. "
            "UNDECIDED = exit 2 (proof not obtained, bounded search found nothing) - never an alarm.\n\n")
    f.write("| change | breaks | needs to manifest | verdict of the target property's check | VIOLATION reported by | no verdict / proof not obtained | proved (OK) | confirmed |\n|---|---|---|---|---|---|---|---|\n")
    for r in rows:
        f.write(f"| {r[0]} | {r[1]} | {r[2]} | **{r[3]}** | {r[4]} | {r[5]} | {r[6]} | {r[7]} |\n")
    if rows:
        f.write(f"\nEvaluated at: {rows[0][8]}\n")
    f.write("\n# Behaviour-preserving refactorings (harmless/): what every check says\n\n| change | VIOLATION | exit 2 | proved (OK) | proof not obtained, bounded search clean (exit 0) | what |\n|---|---|---|---|---|---|\n")
    for d in sorted(glob.glob(os.path.join(V, "harmless", "*", "meta.json"))):
        m = json.load(open(d))
        res = m.get("checks_on_patched_repo", {})
        vio = sorted(p for p, r in res.items() if r["exit"] == 1)
        e2 = sorted(p for p, r in res.items() if r["exit"] == 2)
        ok = sorted(p for p, r in res.items() if r["exit"] == 0 and any(l.startswith("OK") for l in r["lines"]))
        pno = sorted(p for p, r in res.items() if r["exit"] == 0 and not any(l.startswith("OK") for l in r["lines"]))
        f.write(f"| {m.get('id')} | {', '.join(vio) or '-'} | {', '.join(e2) or '-'} | {', '.join(ok) or '-'} | {', '.join(pno) or '-'} | {str(m.get('what',''))[:140].replace('|','&#124;')} |\n")
print(open(os.path.join(V, "seeded", "SUMMARY.md")).read()[:3000])
