"""Thorough tier extras: vacuity (reachability behind every precondition and loop invariant) and proof stability."""
import concurrent.futures
import os
import re
import tempfile

import engine
from overlay import Overlay


def _variant_run(vc_text, tag):
    """verus run with one extra directive file; returns True iff the planted assert(false) is reported as failing"""
    with engine.Scratch() as sc:
        fd, path = tempfile.mkstemp(prefix="vacuity-", suffix=".vc", dir=sc.dir)
        os.write(fd, vc_text.encode())
        os.close(fd)
        src_out = os.path.join(sc.dir, "src")
        import shutil
        shutil.copytree(os.path.join(engine.REPO, "src"), src_out)
        shutil.copytree(os.path.join(engine.CONTRACTS, "vspec"), os.path.join(src_out, "vspec"))
        vcs = [os.path.join(engine.CONTRACTS, f) for f in engine.VC_ORDER] + [path]
        ov = Overlay(os.path.join(engine.REPO, "src"), vcs)
        if ov.problems:
            return tag, None, "anchor: " + "; ".join(ov.problems)
        ov.materialise(src_out)
        r = engine.run_verus(sc.dir, extra=["--num-threads", "2"])
        if r.front_end_error or r.timed_out:
            return tag, None, "verus front end / timeout"
        hit = False
        for d in r.diags:
            for sp in engine.diag_spans(d):
                if "VACUITY-PROBE" in sp[5]:
                    hit = True
        return tag, hit, ""


def run(pid, P, ov, r, seed):
    msgs = []
    cov = {}
    ok = True
    # ---- vacuity probes
    probes = []
    seen = set()
    for fr in ov.fragments:
        if fr.status != "applied" or fr.fn is None:
            continue
        fo = ov.files[fr.file]
        modname = fr.file[:-3].replace("/", "::")
        short = fr.fn.split(" for ")[-1]
        unit = f"xml_schema_generator::{modname}::{short}"
        if unit not in r.units or not any(re.search(p, unit) for p in P["units"]):
            continue
        if fr.kind == "sig" and (fr.file, fr.fn, "fn") not in seen:
            seen.add((fr.file, fr.fn, "fn"))
            probes.append((f"{fr.file}:{fr.fn}:entry", f"=== file {fr.file}\n=== fn {fr.fn} @ body-start\n    assert(false); // VACUITY-PROBE\n"))
        m = re.match(r"loop(\d+)-(header|desugar)$", fr.kind)
        if m and (fr.file, fr.fn, m.group(1)) not in seen:
            seen.add((fr.file, fr.fn, m.group(1)))
            probes.append((f"{fr.file}:{fr.fn}:loop{m.group(1)}", f"=== file {fr.file}\n=== fn {fr.fn} @ loop {m.group(1)} body-start\n    assert(false); // VACUITY-PROBE\n"))
    results = []
    with concurrent.futures.ThreadPoolExecutor(max_workers=6) as ex:
        for res in ex.map(lambda p: _variant_run(p[1], p[0]), probes):
            results.append(res)
    vac_fail = [t for t, hit, why in results if hit is False]
    vac_err = [(t, why) for t, hit, why in results if hit is None]
    cov["vacuity_probes"] = {"planted": len(probes), "reported_as_failing": sum(1 for _, h, _ in results if h), "not_reported": vac_fail, "errors": vac_err,
                             "meaning": "an assert(false) planted at the entry of every function under contract and at the start of every annotated loop body must be REFUTED by Verus; otherwise the preconditions / invariants are contradictory and the proof is vacuous"}
    if vac_fail:
        ok = False
        msgs.append("UNDECIDED vacuous contract: assert(false) is provable at " + ", ".join(vac_fail))
    if vac_err:
        msgs.append("note: vacuity probe could not run at " + ", ".join(t for t, _ in vac_err))
    # ---- stability under other solver seeds
    seeds = [(seed * 7 + 11) % 99991 + 1, (seed * 13 + 101) % 99991 + 1]
    stab = []
    for sd in seeds:
        with engine.Scratch() as sc:
            engine.build_overlay(sc.dir)
            r2 = engine.run_verus(sc.dir, extra=["--smt-option", f"smt.random_seed={sd}"])
            bad = [u for u, v in r2.units.items() if not v["success"] and any(re.search(p, u) for p in P["units"])]
            stab.append({"z3_seed": sd, "verified": r2.verified, "errors": r2.errors, "failed_units": bad, "solver_ms": r2.smt_ms})
            if r2.front_end_error or r2.timed_out or bad:
                ok = False
                msgs.append(f"UNDECIDED unstable proof: with z3 seed {sd} these units fail: {bad}")
    cov["stability_runs"] = stab
    if pid == "C15":
        import kani_check
        k = kani_check.run_c15()
        cov["second_backend"] = k
        if k.get("status") == "failed":
            ok = False
            msgs.append("UNDECIDED Kani cross-check of merge_necessity reports failing checks although Verus verifies: " + str(k.get("tail", ""))[-300:])
        elif k.get("status") != "successful":
            msgs.append("note: Kani cross-check did not complete (" + str(k.get("status")) + "); not counted")
    return ok, cov, msgs
