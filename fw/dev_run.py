import engine, json, sys
engine.ensure_deps()
extra = sys.argv[sys.argv.index('--')+1:] if '--' in sys.argv else []
with engine.Scratch(keep='--keep' in sys.argv) as sc:
    ov = engine.build_overlay(sc.dir)
    if '--keep' in sys.argv: print('scratch', sc.dir)
    if ov.problems or ov.lost: print('problems', ov.problems, 'lost', ov.lost)
    r = engine.run_verus(sc.dir, extra=extra)
    print('ok',r.ok,'verified',r.verified,'errors',r.errors,'fe',r.front_end_error,'wall',round(r.wall_s,1))
    for d in r.diags[:12]:
        print(d['message'][:400]); 
        for s in engine.diag_spans(d)[:4]: print('   ',s[0],s[1],s[3],s[5][:200])
    slow = sorted(r.units.items(), key=lambda kv: -kv[1]['time_us'])[:5]
    print([(k.split('::')[-1], v['time_us']//1000) for k,v in slow])
