import engine, json, sys
engine.ensure_deps()
with engine.Scratch(keep='--keep' in sys.argv) as sc:
    ov = engine.build_overlay(sc.dir)
    print('scratch', sc.dir)
    print('problems', ov.problems); print('lost', ov.lost)
    r = engine.run_verus(sc.dir)
    print('ok',r.ok,'verified',r.verified,'errors',r.errors,'fe',r.front_end_error,'wall',round(r.wall_s,1))
    for d in r.diags[:12]:
        print(d['message'][:300]); 
        for s in engine.diag_spans(d)[:6]: print('   ',s)
    slow = sorted(r.units.items(), key=lambda kv: -kv[1]['time_us'])[:5]
    print([(k, v['time_us']//1000) for k,v in slow])
