#!/usr/bin/env python3
"""./check <property-id> [--quick|--thorough] [--replay <file>] [--keep]

Decides one property by running Verus on the annotated copy of /repo's current working tree.
exit 0  every obligation the property depends on is discharged (KNOWN-FINDING lines possible)
exit 1  an obligation that is the property's own clause fails:  VIOLATION property=<id> replay=<path>
exit 0  also when the proof could not be obtained on a changed tree (front-end rejection, lost anchor, only shared
        obligations failed) and the bounded search on the real code found no violation: printed as PROOF-NOT-OBTAINED,
        evidence level downgraded to exploration
exit 2  no verdict at all: tool failure, assumption scan, vacuity, unstable proof, bounded search could not run
"""
import concurrent.futures
import json
import os
import re
import sys
import time

HERE = os.path.dirname(os.path.abspath(__file__))
sys.path.insert(0, HERE)
import engine  # noqa: E402
import props   # noqa: E402
from overlay import TAG_RE  # noqa: E402

VERIF = engine.VERIF


def log(*a):
    print(*a, flush=True)


def load_known():
    path = os.path.join(VERIF, "known_findings.txt")
    res = []
    if not os.path.exists(path):
        return res
    for line in open(path, encoding="utf-8"):
        line = line.strip()
        if not line or line.startswith("#"):
            continue
        if line.startswith("finding:"):
            m = re.match(r"finding:\s*property=(\S+)\s+site=(\S+)\s+obligation=\"([^\"]*)\"\s*(?:::\s*(.*))?$", line)
            if m:
                res.append({"property": m.group(1), "site": m.group(2), "obligation": m.group(3), "text": m.group(4) or ""})
    return res


def item_keys(src):
    """names of the top-level items and of the functions inside impl blocks of one source file (test modules skipped)"""
    import rustlex
    fs = rustlex.FileStruct(src)
    keys = []
    for it in fs.items:
        if it.kind in ("use", "mod", "extern", "") or it.kind == "macro_rules":
            continue
        keys.append(f"{it.kind} {it.trait + ' for ' if it.trait else ''}{it.name}")
    for f in fs.fns:
        if f.owner is not None:
            keys.append(f"fn {f.owner.trait + ' for ' if f.owner.trait else ''}{f.owner.name}::{f.item.name}")
    return keys


def unknown_items(ov):
    """items of the annotated files that did not exist when the contracts were written (contracts/ITEMS.known)"""
    path = os.path.join(engine.CONTRACTS, "ITEMS.known")
    if not os.path.exists(path):
        return {}
    known = {}
    for line in open(path, encoding="utf-8"):
        if line.startswith("#") or "\t" not in line:
            continue
        rel, key = line.rstrip("\n").split("\t", 1)
        known.setdefault(rel, set()).add(key)
    res = {}
    for rel, fo in ov.files.items():
        try:
            extra = [k for k in item_keys(fo.src) if k not in known.get(rel, set())]
        except Exception:
            extra = []
        if extra:
            res[rel] = extra
    return res


class Failure:
    """one failed obligation"""

    def __init__(self, diag, ov, fn_ranges, line_tags):
        self.message = diag.get("message", "")
        self.rendered = diag.get("rendered", "")
        self.spans = engine.diag_spans(diag)
        self.tags = set()
        self.clauses = []     # (fragment id, clause text)
        self.site_file = None
        self.site_fn = None
        self.in_spec_module = False
        self.orig_lines = []
        prim = [s for s in self.spans if s[4]] or self.spans
        for (f, la, lb, label, isprim, text) in self.spans:
            rel = f[4:] if f.startswith("src/") else f
            if rel.startswith("vspec/"):
                if isprim:
                    self.in_spec_module = True
                continue
            # "at the end of the function body" / "at this exit" / "at this call site" spans say WHERE the obligation
            # arose, not WHICH clause failed; they may cover a whole body and must not contribute clause tags
            if label and str(label).startswith("at "):
                continue
            if lb - la > 12 and len(self.spans) > 1:
                continue
            for ln in range(la, lb + 1):
                key = (rel, ln)
                if key in line_tags:
                    fr, tags, ltxt = line_tags[key]
                    self.tags.update(tags)
                    c = (fr.id, ltxt)
                    if c not in self.clauses:
                        self.clauses.append(c)
        if prim:
            f, la = prim[0][0], prim[0][1]
            rel = f[4:] if f.startswith("src/") else f
            self.site_file = rel
            for (a, b, sel) in fn_ranges.get(rel, []):
                if a <= la <= b:
                    self.site_fn = sel
        # the function whose verification failed: any span inside a repo fn
        if self.site_fn is None:
            for (f, la, lb, label, isprim, text) in self.spans:
                rel = f[4:] if f.startswith("src/") else f
                for (a, b, sel) in fn_ranges.get(rel, []):
                    if a <= la <= b:
                        self.site_file, self.site_fn = rel, sel
        if not self.tags and any(m in self.message for m in props.IMPLICIT_C07) and not self.in_spec_module:
            self.tags.add("C07")
        # base property ids (C15.order -> C15)
        self.props = {t.split(".")[0] for t in self.tags}

    def ident(self):
        cl = "; ".join(c[1] for c in self.clauses[:2]) if self.clauses else ""
        return f"{self.site_file}:{self.site_fn}: {self.message}" + (f" [{cl}]" if cl else "")

    def to_json(self):
        return {"message": self.message, "site": f"{self.site_file}:{self.site_fn}", "clauses": [{"fragment": a, "clause": b} for a, b in self.clauses],
                "tags": sorted(self.tags), "verus_output": self.rendered}


def verify_tree(keep=False, extra=(), variant=None, vc_files=None):
    """one Verus run on the annotated current tree"""
    sc = engine.Scratch(keep=keep)
    try:
        ov = engine.build_overlay(sc.dir, vc_files=vc_files, mutate=variant)
        if ov.problems:
            return sc, ov, None, {}, {}
        r = engine.run_verus(sc.dir, extra=extra)
        fn_ranges = {rel: fo.final_fn_ranges() for rel, fo in ov.files.items()}
        lt = ov.line_tags()
        return sc, ov, r, fn_ranges, lt
    except Exception:
        sc.__exit__()
        raise


def unit_matches(name, pats):
    return any(re.search(p, name) for p in pats)


def collect_clauses(ov, pid):
    """own clauses of property pid, written out"""
    out = []
    for fr in ov.fragments:
        if fr.status != "applied":
            continue
        for l in fr.text.split("\n"):
            m = TAG_RE.search(l)
            tags = [x for x in re.split(r"[,\s]+", m.group(1)) if x] if m else (list(fr.own) if l.strip() and fr.kind in ("sig",) else [])
            if pid in {t.split(".")[0] for t in tags}:
                out.append({"function": fr.fn, "file": fr.file, "fragment": fr.id, "clause": TAG_RE.sub("", l).strip().rstrip(",")})
    return out


def functions_under_contract(ov, r):
    res = []
    seen = set()
    for fr in ov.fragments:
        if fr.fn is None or fr.kind not in ("sig", "attr") or (fr.file, fr.fn) in seen:
            continue
        seen.add((fr.file, fr.fn))
        fo = ov.files[fr.file]
        fns = fo.fs.find_fn(fr.fn)
        if len(fns) != 1:
            continue
        fn = fns[0]
        body = fo.src[fn.item.decl_start:fn.item.end]
        attrs = [f2.text for f2 in ov.fragments if f2.fn == fr.fn and f2.file == fr.file and f2.kind == "attr"]
        atxt = " ".join(attrs)
        status = "verified"
        if "external_body" in atxt:
            status = "trusted (external_body: contract assumed, body not verified)"
        elif "verifier::external]" in atxt:
            status = "external (outside the verified subset)"
        modname = fr.file[:-3].replace("/", "::")
        unit = None
        if r is not None:
            short = fr.fn.split(" for ")[-1]
            for u in r.units:
                if u == f"xml_schema_generator::{modname}::{short}":
                    unit = u
        res.append({"function": fr.fn, "file": "src/" + fr.file, "status": status, "text_sha256": engine.sha(body)[:16],
                    "verus_unit": unit, "solver_ms": (r.units[unit]["time_us"] // 1000) if unit else None,
                    "rlimit": r.units[unit]["rlimit"] if unit else None})
    return res


def scan_unsafe():
    """text scan of the repository's sources for `unsafe` (outside comments)"""
    hits = []
    src = os.path.join(engine.REPO, "src")
    for root, _, files in os.walk(src):
        for f in files:
            if f.endswith(".rs"):
                t = re.sub(r"//[^\n]*", "", open(os.path.join(root, f), encoding="utf-8", errors="replace").read())
                if re.search(r"\bunsafe\b", t):
                    hits.append(os.path.relpath(os.path.join(root, f), src))
    return hits


def scan_assumptions(ov):
    """mechanical scan of everything Verus sees for unchecked assumptions"""
    found = []
    pats = [r"\bassume\s*\(", r"\badmit\s*\(", r"external_body", r"verifier::external\b", r"assume_specification", r"\baxiom\b", r"external_type_specification", r"external_derive", r"uninterp"]
    texts = {}
    for fr in ov.fragments:
        if fr.status == "applied":
            texts.setdefault("contracts:" + fr.file, []).append(fr.text)
    vs = os.path.join(engine.CONTRACTS, "vspec")
    for f in sorted(os.listdir(vs)):
        texts["vspec/" + f] = [open(os.path.join(vs, f), encoding="utf-8").read()]
    for k, ts in texts.items():
        t = "\n".join(ts)
        # strip comments
        t = re.sub(r"//[^\n]*", "", t)
        for p in pats:
            n = len(re.findall(p, t))
            if n:
                found.append((k, p, n))
    return found


def check_allowlist(found):
    path = os.path.join(engine.CONTRACTS, "ASSUMPTIONS.allow")
    allowed = {}
    for line in open(path, encoding="utf-8"):
        line = line.strip()
        if not line or line.startswith("#"):
            continue
        k, p, n = line.split("\t")[:3]
        allowed[(k, p)] = int(n)
    bad = []
    for k, p, n in found:
        if allowed.get((k, p), 0) < n:
            bad.append(f"{k}: pattern {p} occurs {n}x, allow-list has {allowed.get((k, p), 0)}")
    return bad


def write_replay(pid, failures, r, ov, witness=None, dep_failed=()):
    os.makedirs(os.path.join(VERIF, "replays"), exist_ok=True)
    key = engine.sha(pid + "|" + "|".join(sorted(f.ident() for f in failures)) + "|" + json.dumps(witness, sort_keys=True))[:12]
    path = os.path.join(VERIF, "replays", f"{pid}-{key}.json")
    doc = {
        "property": pid,
        "kind": "failed-obligations",
        "failed_obligations": [f.to_json() for f in failures],
        "proof_steps_no_longer_verified": [f.to_json() for f in dep_failed],
        "witness": witness,
        "verus_cmd": r.cmd if r else None,
        "repo_src_sha256": {rel: engine.sha(fo.src) for rel, fo in ov.files.items()},
        "how_to_replay": f"./check {pid} --replay {path}   (re-runs Verus on /repo's current tree and reports whether the named obligations still fail; with a witness, also re-executes the input against the real code)",
    }
    if witness:
        doc["kind"] = "failing-input"
    with open(path, "w", encoding="utf-8") as f:
        json.dump(doc, f, indent=1, ensure_ascii=False)
    return path


def main():
    args = sys.argv[1:]
    if not args:
        print(__doc__)
        return 2
    pid = args[0]
    tier = os.environ.get("VERIF_TIER", "quick")
    if "--thorough" in args:
        tier = "thorough"
    if "--quick" in args:
        tier = "quick"
    seed = int(os.environ.get("VERIF_SEED", "0") or 0)
    keep = "--keep" in args
    replay = args[args.index("--replay") + 1] if "--replay" in args else None
    if pid not in props.PROPS:
        log(f"unknown or unclaimed property {pid}")
        return 2
    P = props.PROPS[pid]
    t0 = time.time()
    engine.ensure_deps()
    extra = []
    if seed:
        extra += ["--smt-option", f"smt.random_seed={seed % 100000}"]
    for mod in P.get("modules", []):      # properties confined to a few modules need not re-verify the parser
        extra += ["--verify-only-module", mod]
    sc, ov, r, fn_ranges, lt = verify_tree(keep=keep, extra=extra)
    # a change that moves parser.rs outside the Verus subset must not take the properties that do not depend on the
    # parser with it: re-run without the parser overlay (parser.rs is then plain Rust that Verus ignores)
    parser_free = not any(re.search(pat, "xml_schema_generator::parser::x") for pat in P["units"])
    retry = False
    if parser_free and r is not None and r.front_end_error:
        files = set()
        for d in r.diags:
            for sp in d.get("spans", []):      # the diagnostic's own spans, not those of its notes
                files.add(sp["file_name"])
        retry = bool(files) and all(f == "src/parser.rs" for f in files)
    if parser_free and r is None and ov.problems and all(p.startswith("parser.rs:") for p in ov.problems):
        retry = True
    if retry:
        log("note: the parser overlay cannot be applied or is rejected by the Verus front end; verifying", pid, "(which does not depend on the parser) without it")
        sc.__exit__()
        sc, ov, r, fn_ranges, lt = verify_tree(keep=keep, extra=extra, vc_files=[f for f in engine.VC_ORDER if f != "parser.vc"])
    # likewise a property that depends on necessity.rs only (C15) is not taken along when element.rs leaves the Verus subset
    element_free = parser_free and not any(re.search(pat, "xml_schema_generator::element::x") or re.search(pat, "xml_schema_generator::vspec::tree::x") for pat in P["units"])
    retry2 = False
    if element_free and r is not None and r.front_end_error:
        files = set()
        for d in r.diags:
            for sp in d.get("spans", []):
                files.add(sp["file_name"])
        retry2 = bool(files) and all(f in ("src/parser.rs", "src/element.rs") for f in files)
    if element_free and r is None and ov.problems and all(p.startswith(("parser.rs:", "element.rs:")) for p in ov.problems):
        retry2 = True
    if retry2:
        log("note: the overlay of element.rs / parser.rs cannot be applied or is rejected by the Verus front end; verifying", pid, "(which depends on necessity.rs only) without it")
        sc.__exit__()
        ex2 = []
        k = 0
        while k < len(extra):      # drop --verify-only-module for spec modules that are not part of the reduced crate
            if extra[k] == "--verify-only-module" and extra[k + 1].startswith("vspec::") and extra[k + 1][7:] not in engine.NECESSITY_ONLY_VSPEC:
                k += 2
                continue
            ex2.append(extra[k])
            k += 1
        sc, ov, r, fn_ranges, lt = verify_tree(keep=keep, extra=ex2, vc_files=["lib.vc", "necessity.vc"])
    try:
        return decide(pid, P, tier, seed, sc, ov, r, fn_ranges, lt, t0, replay)
    finally:
        if keep:
            log("scratch kept at", sc.dir)
        sc.__exit__()


def decide(pid, P, tier, seed, sc, ov, r, fn_ranges, lt, t0, replay):
    # evidence is only ever written for /repo itself; development runs against another tree (VERIF_REPO) write elsewhere
    ev_dir = os.path.join(VERIF, "evidence") if os.path.realpath(engine.REPO) == "/repo" else os.path.join(os.environ.get("VERIF_TMP") or "/tmp", "xsg-evidence-dev")
    ev_path = os.path.join(ev_dir, f"{pid}.json")
    os.makedirs(os.path.dirname(ev_path), exist_ok=True)
    notes = []
    status = "proved"          # proved | own_failed | undecided
    failures, units, new_own = [], {}, []
    if ov.problems:
        status = "undecided"
        for p in ov.problems:
            notes.append("anchor lost: " + p)
    elif r.timed_out or r.front_end_error:
        status = "undecided"
        notes.append("verus timed out" if r.timed_out else "verus front end rejected the annotated crate: " + "; ".join(d.get("message", "")[:160] for d in r.diags[:3]))
    else:
        bad = check_allowlist(scan_assumptions(ov))
        if bad:
            for b in bad:
                log("UNDECIDED assumption scan:", b)
            return 2
        failures = [Failure(d, ov, fn_ranges, lt) for d in r.diags]
        rlimit_fail = [f for f in failures if "rlimit" in f.message.lower() or "resource limit" in f.message.lower()]
        units = {u: v for u, v in r.units.items() if unit_matches(u, P["units"])}
        if not units:
            log("UNDECIDED vacuous: no verification unit matched for", pid)
            return 2
        failed_units = [u for u, v in units.items() if not v["success"]]
        own = [f for f in failures if pid in f.props and f not in rlimit_fail]
        known = load_known()
        known_failures = []
        for f in own:
            hit = None
            for k in known:
                if k["property"] == pid and k["site"] == f"{f.site_file}:{f.site_fn}" and (k["obligation"] in f.message or any(k["obligation"] in c[1] for c in f.clauses)):
                    hit = k
            if hit:
                log(f"KNOWN-FINDING: property={pid} {hit['site']} {hit['obligation']} :: {hit['text']}")
                known_failures.append(f)
            else:
                new_own.append(f)
        # a unit whose only failed obligations are listed findings does not break the chain
        def unit_of(f):
            return "xml_schema_generator::" + str(f.site_file)[:-3].replace("/", "::") + "::" + str(f.site_fn).split(" for ")[-1]
        excused = {unit_of(f) for f in known_failures}
        for f in failures:
            if f not in known_failures and unit_of(f) in excused:
                excused.discard(unit_of(f))
        failed_units = [u for u in failed_units if u not in excused]
        lost_fns = {l.split(":")[1] for l in ov.lost if l.count(":") >= 2}
        if new_own and all(f.site_fn in lost_fns for f in new_own):
            status = "undecided"
            notes.append("a proof hint of the failing function could not be placed (text anchor lost): " + "; ".join(f.ident() for f in new_own))
            new_own = []
        elif new_own:
            status = "own_failed"
        elif failed_units or rlimit_fail:
            status = "undecided"
            notes.append("no own obligation of %s failed, but units its proof depends on did not verify: %s" % (pid, ", ".join(failed_units[:6])))
            for f in [f for f in failures if f not in own][:6]:
                notes.append("   failed: " + f.ident() + " tags=" + ",".join(sorted(f.tags)))
    if replay:
        return do_replay(pid, replay, failures)
    for l in ov.lost:
        log("note: optional proof hint not placed:", l)
    # bounded search on the real code: witness for a failed obligation, stand-in for what the verifier cannot reach
    import witness as wit
    bounded = None
    try:
        bounded = wit.search(pid, tier, seed)
    finally:
        wit.close()
    extra = {}
    if bounded is not None:
        st = bounded.get("stats") or {}
        extra["bounded_standin"] = {
            "label": "BOUNDED - executes the real library on generated inputs against statement-level oracles; never counted as proved",
            "evaluations": st.get("evaluations"), "distinct_nontrivial": st.get("distinct_nontrivial"), "rule": st.get("rule"),
            "sample": st.get("sample"), "exhaustive_within_bound": str(st.get("rule", "")).startswith("EXHAUSTIVE"),
            "wall_s": bounded.get("wall_s"), "error": bounded.get("error"), "witness_found": bounded.get("witness") is not None,
        }
    w = bounded.get("witness") if bounded else None
    if w is not None:
        dep_failed = [f for f in failures if f not in new_own] if status == "undecided" else []
        path = write_replay(pid, new_own, r, ov, w, dep_failed)
        for f in new_own:
            log("failed obligation:", f.ident())
        for f in dep_failed[:6]:
            log("proof step that no longer verifies (not an own obligation of %s):" % pid, f.ident())
        log("failing input (re-executed against the real code):", json.dumps({k: v for k, v in w.items() if k not in ("docs_hex",)}, ensure_ascii=False)[:1500])
        write_evidence(ev_path, pid, tier, seed, ov, r, failures, units, t0, notes, violations=max(1, len(new_own)), extra=extra)
        log(f"VIOLATION property={pid} replay={path}")
        return 1
    if status == "own_failed":
        # triage "missing contract" vs. "violation": code the contracts know nothing about (a new function or impl in the
        # file of the failing function) has no specification, so an obligation that now fails may fail for that reason alone
        unk = unknown_items(ov)
        hit = sorted({f.site_file for f in new_own if f.site_file in unk})
        if hit:
            for f in new_own:
                notes.append("own obligation not re-proved: " + f.ident())
            notes.append("the changed tree contains items without contracts (" + "; ".join(f"{h}: {', '.join(unk[h][:4])}" for h in hit)
                         + "): the failed obligations may be due to their missing specifications, not to a violation; no failing input exists within the bounded search")
            status = "undecided"
    if status == "own_failed":
        path = write_replay(pid, new_own, r, ov, None)
        for f in new_own:
            log("failed obligation:", f.ident())
        write_evidence(ev_path, pid, tier, seed, ov, r, failures, units, t0, notes, violations=len(new_own), extra=extra)
        log(f"VIOLATION property={pid} replay={path} no-failing-input-found")
        return 1
    if status == "undecided":
        for n in notes:
            log("PROOF-NOT-OBTAINED", n)
        st = (bounded or {}).get("stats") or {}
        if not st.get("evaluations"):
            # nothing at all was explored (the harness could not be built or run): no verdict
            log(f"UNDECIDED property={pid}: proof not obtained and the bounded search could not run: {(bounded or {}).get('error')}")
            write_evidence(ev_path, pid, tier, seed, ov, r, failures, units, t0, notes, undecided=True, extra=extra)
            return 2
        # the interface knows two outcomes: the property held on everything explored (0) or a violation (1).  What was
        # explored here is the bounded search only; the evidence file says so (level exploration, not proof).
        log(f"PROOF-NOT-OBTAINED property={pid}: the change moved the code outside what the contracts can follow (see above); "
            f"decided by the BOUNDED search on the real code only: {st.get('evaluations')} inputs, no violation")
        write_evidence(ev_path, pid, tier, seed, ov, r, failures, units, t0, notes, undecided=True, extra=extra, bounded_only=st)
        return 0
    # thorough extras
    if tier == "thorough":
        import thorough
        ok, extra_cov, msgs = thorough.run(pid, P, ov, r, seed)
        extra.update(extra_cov)
        for m in msgs:
            log(m)
        if not ok:
            write_evidence(ev_path, pid, tier, seed, ov, r, failures, units, t0, notes + msgs, undecided=True, extra=extra)
            return 2
    write_evidence(ev_path, pid, tier, seed, ov, r, failures, units, t0, notes, extra=extra)
    n_ok = sum(1 for v in units.values() if v["success"])
    st = (bounded or {}).get("stats") or {}
    log(f"OK property={pid} tier={tier}: {n_ok}/{len(units)} verification units discharged by verus/z3 ({r.smt_ms} ms solver, {r.wall_s:.1f} s wall), {len(collect_clauses(ov, pid))} own clauses; bounded stand-in: " + (f"{st.get('evaluations')} inputs, no violation" if st.get('evaluations') else f"did not run ({str(st.get('rule') or (bounded or {}).get('error') or 'no output')[:160]})"))
    return 0


def do_replay(pid, path, failures):
    doc = json.load(open(path, encoding="utf-8"))
    want = [(o["site"], o["message"], tuple(c["clause"] for c in o.get("clauses", []))) for o in doc.get("failed_obligations", [])]
    now = [(f"{f.site_file}:{f.site_fn}", f.message, tuple(c[1] for c in f.clauses)) for f in failures]
    still = [w for w in want if any(w[0] == n[0] and w[1] == n[1] for n in now)]
    rc = 0
    if doc.get("witness"):
        try:
            import witness as wit
            ok = wit.replay(doc["witness"])
            log("witness replay:", ("property VIOLATED by the recorded input: " + ok[1]) if ok[0] else "the recorded input no longer violates the property")
            if ok[0]:
                rc = 1
                log(f"VIOLATION property={pid} replay={path}")
            wit.close()
            if not want:
                return rc
        except ImportError:
            pass
    for w in want:
        log(("STILL FAILS  " if w in still else "now verifies ") + f"{w[0]}: {w[1]} {list(w[2])[:2]}")
    if still:
        log(f"VIOLATION property={pid} replay={path}" + ("" if doc.get("witness") else " no-failing-input-found"))
        return 1
    return rc


def write_evidence(path, pid, tier, seed, ov, r, failures, units, t0, notes, undecided=False, violations=0, extra=None, bounded_only=None):
    P = props.PROPS[pid]
    clauses = collect_clauses(ov, pid)
    units = units or {}
    n_ok = sum(1 for v in units.values() if v["success"])
    fuc = functions_under_contract(ov, r if (r and not r.front_end_error) else None) if ov and not ov.problems else []
    cov = {
        "obligations": max(len(units), 0),
        "discharged": n_ok,
        "checker_cmd": ("cd <scratch copy of /repo with contracts/*.vc applied> && " + r.cmd) if r else "verus not run",
        "trusted_base": [props.ASSUMPTIONS[a] for a in P["assumes"]],
        "obligation_unit": "one obligation = one Verus verification unit (exec function incl. all its requires/ensures/invariant/assert/decreases/overflow/bounds conditions, proof lemma, or spec-function termination check) as listed in Verus's --output-json function breakdown; restricted to the units this property's proof depends on",
        "own_clauses": len(clauses),
        "samples": clauses[:14] if clauses else [{"note": "no own clause placed"}],
        "backend": "verus 0.2026.09.13 / z3 (bundled)",
        "solver_ms": r.smt_ms if r else None,
        "verus_wall_s": round(r.wall_s, 2) if r else None,
        "units": [{"unit": u, "mode": v["mode"], "ok": v["success"], "solver_us": v["time_us"], "rlimit": v["rlimit"]} for u, v in sorted(units.items())],
        "functions_under_contract": fuc,
        "non_insertion_edits": ov.e2 if ov else [],
        "source_sha256": {("src/" + rel): engine.sha(fo.src) for rel, fo in (ov.files.items() if ov else [])},
        "fidelity": "for every annotated file, removing the inserted spans and undoing the listed E2 rewrites reproduced the original file byte for byte (asserted on this run)",
        "lost_hints": ov.lost if ov else [],
        "unsafe_in_repo_sources": scan_unsafe(),
        "failed_obligations": [f.to_json() for f in failures][:20],
        "undecided": undecided,
        "claim": P.get("claim", ""),
        "notes": notes,
    }
    if extra:
        cov.update(extra)
    doc = {
        "property_id": pid, "tier": tier, "seed": seed, "level": "proof",
        "coverage": cov,
        "assumptions": [props.ASSUMPTIONS[a] for a in P["assumes"]],
        "wall_s": round(time.time() - t0, 2),
        "violations": violations,
    }
    if bounded_only:
        # proof not obtained on this tree: the run's verdict rests on the bounded search alone and is reported as such
        doc["level"] = "exploration"
        cov["evaluations"] = int(bounded_only.get("evaluations") or 0)
        cov["distinct_nontrivial"] = int(bounded_only.get("distinct_nontrivial") or 0)
        cov["rule"] = str(bounded_only.get("rule"))
        cov["samples"] = [bounded_only.get("sample")]
        cov["exhaustive"] = str(bounded_only.get("rule", "")).startswith("EXHAUSTIVE")
        cov["proof_status"] = "NOT OBTAINED on this tree - " + "; ".join(notes)[:600]
    with open(path, "w", encoding="utf-8") as f:
        json.dump(doc, f, indent=1, ensure_ascii=False)


if __name__ == "__main__":
    sys.exit(main())
