#!/usr/bin/env python3
"""development-time tool:  fw/seed_eval.py <seeded-dir> [--no-confirm] [--props C15,C09]

<seeded-dir> holds patch.diff, demo.rs (an integration test using the public API) and meta.json.
1. confirm, in a scratch worktree of /repo, that the demo passes without the patch, that the full
   suite passes with it and that the demo fails with it;
2. apply the patch to /repo, run the registered quick checks, undo the patch;
3. record everything in <seeded-dir>/meta.json.
Nothing is ever committed to /repo.
"""
import json
import os
import subprocess
import sys
import tempfile

VERIF = os.path.dirname(os.path.dirname(os.path.abspath(__file__)))
REPO = os.environ.get("VERIF_REPO", "/repo")


def sh(cmd, cwd=None, env=None, timeout=3600):
    e = dict(os.environ)
    e["CARGO_NET_OFFLINE"] = "true"
    if env:
        e.update(env)
    p = subprocess.run(cmd, shell=True, cwd=cwd, env=e, capture_output=True, text=True, timeout=timeout)
    return p.returncode, p.stdout + p.stderr


def main():
    d = os.path.abspath(sys.argv[1])
    confirm = "--no-confirm" not in sys.argv
    meta_path = os.path.join(d, "meta.json")
    meta = json.load(open(meta_path)) if os.path.exists(meta_path) else {}
    patch = os.path.join(d, "patch.diff")
    demo = os.path.join(d, "demo.rs")
    claimed = [c["property_id"] for c in json.load(open(os.path.join(VERIF, "MANIFEST.json")))["checks"]]
    restricted = False
    if "--props" in sys.argv:
        claimed = sys.argv[sys.argv.index("--props") + 1].split(",")
        restricted = True
    elif os.environ.get("SEED_PROPS"):
        claimed = os.environ["SEED_PROPS"].split(",")
        restricted = True
    import shutil
    backup = tempfile.mkdtemp(prefix="seed-backup-")
    shutil.copytree(os.path.join(REPO, "src"), os.path.join(backup, "src"))
    if confirm:
        wt = tempfile.mkdtemp(prefix="seed-eval-")
        try:
            for item in ("Cargo.toml", "Cargo.lock", "src", "README.md"):
                pth = os.path.join(REPO, item)
                if os.path.isdir(pth):
                    shutil.copytree(pth, os.path.join(wt, item))
                elif os.path.exists(pth):
                    shutil.copy(pth, os.path.join(wt, item))
            os.makedirs(os.path.join(wt, "tests"), exist_ok=True)
            sh(f"cp {demo} {wt}/tests/seed_demo.rs")
            env = {"CARGO_TARGET_DIR": os.path.join(wt, "target")}
            rc0, out0 = sh("cargo test --offline --test seed_demo", cwd=wt, env=env)
            rca, outa = sh(f"git apply {patch}", cwd=wt)
            if rca != 0:
                print("patch does not apply:", outa)
                meta["confirmed"] = False
                meta["confirm_error"] = "patch does not apply to the repository HEAD: " + outa[-500:]
                json.dump(meta, open(meta_path, "w"), indent=1)
                return 2
            os.rename(os.path.join(wt, "tests", "seed_demo.rs"), os.path.join(wt, "seed_demo.rs.off"))
            rc1, out1 = sh("cargo test --offline", cwd=wt, env=env)
            os.rename(os.path.join(wt, "seed_demo.rs.off"), os.path.join(wt, "tests", "seed_demo.rs"))
            rc2, out2 = sh("cargo test --offline --test seed_demo", cwd=wt, env=env)
            res = [l for l in out1.split("\n") if l.startswith("test result")]
            meta["confirm"] = {
                "demo_without_patch": "pass" if rc0 == 0 else "FAIL",
                "suite_with_patch": "pass" if rc1 == 0 else "FAIL",
                "suite_with_patch_results": res,
                "demo_with_patch": "fail (as required)" if rc2 != 0 else "PASSES (demo does not detect the change)",
                "commands": ["cargo test --offline --test seed_demo  (HEAD)", "git apply patch.diff && cargo test --offline", "cargo test --offline --test seed_demo  (patched)"],
            }
            meta["confirmed"] = (rc0 == 0 and rc1 == 0 and rc2 != 0)
            print("confirm:", meta["confirm"])
            if not meta["confirmed"]:
                print((out0 if rc0 else out1 if rc1 else out2)[-1500:])
        finally:
            shutil.rmtree(wt, ignore_errors=True)
    if "--confirm-only" in sys.argv:
        shutil.rmtree(backup, ignore_errors=True)
        json.dump(meta, open(meta_path, "w"), indent=1)
        return 0 if meta.get("confirmed") else 1
    # run the checks on /repo with the patch applied
    rc, out = sh(f"git apply {patch}", cwd=REPO)
    if rc != 0:
        print("patch does not apply to the repository:", out)
        return 2
    # a restricted run refreshes only the named columns of an earlier full evaluation
    results = dict(meta.get("checks_on_patched_repo", {})) if restricted else {}
    try:
        for pid in claimed:
            rc, out = sh(f"./check {pid} --quick", cwd=VERIF)
            lines = [l for l in out.split("\n") if l.startswith(("VIOLATION", "UNDECIDED", "OK", "failed obligation", "KNOWN-FINDING", "PROOF-NOT-OBTAINED property"))]
            results[pid] = {"exit": rc, "lines": lines[:8]}
            print(pid, rc, *lines[:4], sep="\n   ")
    finally:
        shutil.rmtree(os.path.join(REPO, "src"))
        shutil.copytree(os.path.join(backup, "src"), os.path.join(REPO, "src"))
        shutil.rmtree(backup, ignore_errors=True)
    meta["checks_on_patched_repo"] = results
    meta["detected_by"] = sorted(p for p, r in results.items() if r["exit"] == 1)
    meta["undecided_in"] = sorted(p for p, r in results.items() if r["exit"] == 2)
    rc, head = sh("git -C /repo log --format=%h -1")
    rc, vh = sh("git log --format=%h -1", cwd=VERIF)
    if restricted and meta.get("evaluated_at"):
        meta["evaluated_at"]["refreshed"] = {"verif": vh.strip(), "properties": claimed}
    else:
        meta["evaluated_at"] = {"repo": head.strip(), "verif": vh.strip()}
    json.dump(meta, open(meta_path, "w"), indent=1)
    return 0


if __name__ == "__main__":
    sys.exit(main())
