"""Second back end (thorough tier only, BOUNDED): Kani/CBMC on the real merge_necessity for a fixed list shape with
symbolic payloads and tags.  The harness text (kani/c15_harness.rs) is appended to an unmodified copy of necessity.rs."""
import os
import re
import shutil
import subprocess
import tempfile
import time

import engine


def run_c15(timeout=900):
    t0 = time.time()
    d = tempfile.mkdtemp(prefix="xsgkani-", dir=os.environ.get("VERIF_TMP") or tempfile.gettempdir())
    try:
        shutil.copytree(os.path.join(engine.REPO, "src"), os.path.join(d, "src"))
        for f in ("main.rs", "args.rs"):
            p = os.path.join(d, "src", f)
            if os.path.exists(p):
                os.remove(p)
        shutil.copy(os.path.join(engine.VERIF, "rt", "crate.Cargo.toml"), os.path.join(d, "Cargo.toml"))
        lock = os.path.join(engine.REPO, "Cargo.lock")
        if os.path.exists(lock):
            shutil.copy(lock, os.path.join(d, "Cargo.lock"))
        with open(os.path.join(d, "src", "necessity.rs"), "a", encoding="utf-8") as f:
            f.write("\n" + open(os.path.join(engine.VERIF, "kani", "c15_harness.rs"), encoding="utf-8").read())
        env = dict(os.environ)
        env["CARGO_NET_OFFLINE"] = "true"
        cmd = ["bash", "-c", "ulimit -v 16000000; exec cargo kani --harness c15_shape_2_2"]
        try:
            p = subprocess.run(cmd, cwd=d, env=env, capture_output=True, text=True, timeout=timeout)
            out = p.stdout + p.stderr
        except subprocess.TimeoutExpired:
            return {"backend": "kani 0.68 / cbmc", "status": "timeout", "wall_s": round(time.time() - t0, 1)}
        m = re.search(r"\*\* (\d+) of (\d+) failed", out)
        ok = "VERIFICATION:- SUCCESSFUL" in out
        return {"backend": "kani 0.68 / cbmc (BOUNDED: list shape (2,2), payloads u8 and tags symbolic, unwind 6)",
                "harness": "kani/c15_harness.rs::c15_shape_2_2 appended to a copy of src/necessity.rs",
                "status": "successful" if ok else ("failed" if "VERIFICATION:- FAILED" in out else "error"),
                "checks": int(m.group(2)) if m else None, "failed_checks": int(m.group(1)) if m else None,
                "wall_s": round(time.time() - t0, 1), "tail": "" if ok else out[-800:]}
    finally:
        shutil.rmtree(d, ignore_errors=True)
