"""Per-property configuration: which verification units a property's proof depends on,
what is claimed, and the assumption entries (DESIGN.md section 3.3) in use."""

ALL_PARSER = [r"^xml_schema_generator::"]          # the parser properties depend on every unit

ASSUMPTIONS = {
    "A1": "A1 PartialEq on the element/attribute payload type is structural equality (eq_is_structural::<T>(); true for String, &str, integers)",
    "A2": "A2 std::mem::discriminant on Necessity<T>: equal discriminants <=> same variant (axiom_necessity_discriminant)",
    "A3": "A3 [T]::contains(x) <=> exists i. s[i].eq_spec(x) (assume_specification)",
    "A4": "A4 vstd HashMap model with obeys_key_model::<String>() (string_keys_ok())",
    "A5": "A5 quick_xml event model: Reader::read_event_into pops the head of a finite ghost sequence rd_pending(reader) of abstract events / errors and yields Eof forever afterwards; BytesStart::name/attributes, Attributes::next, BytesText/CData::into_inner, Reader::buffer_position are tied to the same ghost values; how bytes become events is quick_xml's business and is NOT verified",
    "A6": "A6 trusted leaves of the repository (external_body, contract assumed, body is one std call Verus cannot specify): parser::to_str (from_utf8), Element::new (into_iter().map(closure).collect(): vstd's Map adapter is prophetic, nothing ties its items to the closure), Element::get_child_mut (iter_mut().find(closure): vstd's find gives no frame for the &mut items it consumes and drops, so `nothing else changes` cannot be derived). Element::get_child, Element::remove_child and Element::merge_attr are no longer in this list: they are verified, closures included (vstd's find; A10; E2-g, E2-h)",
    "A10": "A10 std Iterator::position on core::slice::Iter (assume_specification written from the std documentation; vstd has none): Some(i) = the closure's postcondition holds with `true` for item i and with `false` for every item before it; None = with `false` for every remaining item. The closure inside Element::remove_child carries a machine-checked postcondition (b == (c.val().name == *name))",
        "A9": "A9 Rust's allocation limit: a Vec of a non-zero-sized element type (Necessity<_>, String, u8) has at most isize::MAX elements (broadcast axioms group_vec_len_bounds); without it harmless size arithmetic such as Vec::with_capacity(a.len() + b.len()) would be flagged",
    "A8": "A8 renderer frame: to_serde_struct is an unverified deterministic function of the tree (the contracts stop at the Element tree; the rendered text is outside the verifier)",
    "M": "machine arithmetic is NOT treated as mathematical: every u32/usize operation in the functions under contract carries Verus's overflow obligation (the occurrence counter saturates, D5); int/nat occur only in ghost code",
    "U": "there is no unsafe code in /repo/src (checked by a text scan on every run); the external crates quick_xml, convert_string, log are outside the verifier (A5) and may contain unsafe code",
    "V": "Verus 0.2026.09.13 + Z3 are trusted; vstd's specifications of Vec (incl. remove / insert / push), Option, Result, HashMap, slice iterators (incl. Iterator::find, which get_child's proof rests on), String::clone are trusted; termination of spec functions is checked by Verus",
    "H": "that a caller's sequence of API calls is a sequence of the verified steps (sequential composition) is the only meta-argument left; the inductions over operation sequences, occurrences, nesting depth and extend calls are machine-checked (theorem_c16_all_sequences, theorem_level_occurrences, theorem_deep, lemma_deep_compose, theorem_into/theorem_extend)",
}

PROPS = {
    "C15": {
        "units": [r"^xml_schema_generator::necessity::", r"^xml_schema_generator::vspec::nec::", r"^xml_schema_generator::vspec::c15::"],
        "modules": ["necessity", "vspec::nec", "vspec::c15", "vspec::boundary"],
        "assumes": ["A1", "A2", "A9", "M", "U", "V"],
        "claim": "for duplicate-free lists (the property's precondition; nothing is demanded for lists with repeated items) the real merge_necessity computes spec_merge (written from the statement); the loop invariants speak about the state, not about early exits; plus the derived clause lemmas (each distinct item exactly once, Mandatory iff Mandatory in both, first-list order then second-list-only items in original relative order), for all lists of all lengths",
    },
    "C16": {
        "units": [r"^xml_schema_generator::element::", r"^xml_schema_generator::necessity::(Necessity::|impl)", r"^xml_schema_generator::vspec::tree::", r"^xml_schema_generator::vspec::c16::"],
        "modules": ["element", "necessity", "vspec::tree", "vspec::c16", "vspec::nec", "vspec::boundary"],
        "assumes": ["A1", "A2", "A3", "A6", "A9", "A10", "H", "M", "U", "V"],
        "claim": "tree half: every public construction operation refines a spec operation apply_op on the children list and preserves unique child names (also deeply); theorem_c16_all_sequences: uniqueness holds after EVERY finite sequence of operations; add-existing is a no-op, mark-optional preserves the subtree; lookup (get_child, vstd's find), removal (remove_child, std position assumed: A10) and merge_attr are verified, closures included; the contract of get_child_mut is an assumed leaf (A6); the rendering sentence of C16 is covered by the bounded stand-in only",
    },
    "C03": {"units": ALL_PARSER, "assumes": ["A1", "A2", "A3", "A4", "A5", "A6", "A8", "A9", "A10", "M", "U", "V"],
            "claim": "the tree returned by the parser is exactly g_build (the inference algorithm as a spec function) of the abstract event stream (T1)"},
    "C05": {"units": ALL_PARSER, "assumes": ["A1", "A2", "A3", "A4", "A5", "A6", "A8", "A9", "A10", "M", "U", "V"],
            "claim": "parser half: the returned tree including internal child order is a spec function of (tree, event sequence); vstd leaves HashMap iteration order unconstrained, so the proof exists only if that order cannot influence the result"},
    "C07": {"units": ALL_PARSER, "assumes": ["A1", "A2", "A3", "A4", "A5", "A6", "A9", "A10", "M", "U", "V"],
            "claim": "no arithmetic overflow, out-of-bounds access or failing unwrap, and termination (decreases) of every function under contract, for all event streams"},
    "C08": {"units": ALL_PARSER, "assumes": ["A1", "A2", "A3", "A4", "A5", "A6", "A9", "A10", "M", "U", "V"],
            "claim": "Ok/Err verdict equals the stream-order oracle scan(); the error variant equals scan_kind() (first fault in stream order); syntax errors carry the reader position"},
    "C01": {"units": ALL_PARSER, "assumes": ["A1", "A2", "A3", "A4", "A5", "A6", "A8", "A9", "A10", "H", "M", "U", "V"],
            "claim": "T1 + one-step soundness theorems (theorem_occurrence_start/_empty, theorem_c15) over the ghost algorithm"},
    "C06": {"units": ALL_PARSER, "assumes": ["A1", "A2", "A3", "A4", "A5", "A6", "A8", "A9", "A10", "H", "M", "U", "V"],
            "claim": "T1 on extend_struct + extend == one more root occurrence + element-less no-op + one-step monotonicity; order independence / idempotence bounded only"},
    "C09": {"units": ALL_PARSER, "assumes": ["A1", "A2", "A3", "A4", "A5", "A6", "A8", "A9", "A10", "M", "U", "V"],
            "claim": "T1 + theorem_level_order (position order == first-appearance order) + attribute order by merge_necessity's contract; renderer sort bounded only"},
    "C11": {"units": ALL_PARSER, "assumes": ["A1", "A2", "A3", "A4", "A5", "A6", "A8", "A9", "A10", "M", "U", "V"],
            "claim": "T1 (tree == g_build(abstract events)) + theorem_norm (g_build depends only on the normal form of the stream: ignorable events dropped, CDATA == text, text content erased, <x/> == <x></x>); attribute values are not part of the event model"},
}

# messages of obligations that Verus generates by itself (no contract clause to tag): panic freedom / termination
IMPLICIT_C07 = [
    "possible arithmetic underflow/overflow", "possible division by zero", "decreases not satisfied",
    "loop must have a decreases clause", "could not prove termination", "possible bit shift underflow/overflow",
    "index out of bounds", "recursive function must have a decreases clause", "must have a decreases clause",
]
