#!/bin/bash
# development-time: evaluate every seeded change against the registered checks, on a private copy of the repository
# usage: fw/seed_all.sh [--no-confirm] [ids...]      (VERIF_REPO must point at a scratch copy of /repo, never /repo itself while editing)
cd "$(dirname "$0")/.."
NC=""; if [ "$1" = "--no-confirm" ]; then NC="--no-confirm"; shift; fi
ids="$@"; [ -z "$ids" ] && ids=$(ls seeded)
./setup.sh >/dev/null
for k in $ids; do echo "=== $k"; python3 fw/seed_eval.py seeded/$k $NC 2>&1 | grep -E "confirm:|^C[0-9]+ [0-9]|VIOLATION|UNDECIDED prop|^ *OK |refusing|does not apply" | cut -c1-200; done
