#!/usr/bin/env python3
"""development-time only: regenerate contracts/ASSUMPTIONS.allow from the current overlay (review the diff before committing!)"""
import os, sys
sys.path.insert(0, os.path.dirname(os.path.abspath(__file__)))
import engine, check
with engine.Scratch() as sc:
    ov = engine.build_overlay(sc.dir)
    found = check.scan_assumptions(ov)
with open(os.path.join(engine.CONTRACTS, "ASSUMPTIONS.allow"), "w") as f:
    f.write("# where<TAB>pattern<TAB>max occurrences   (mechanical scan of contract fragments and vspec modules, comments stripped)\n")
    f.write("# anything beyond these counts makes every check exit 2 (undecided) until the list is reviewed and regenerated with fw/mk_allow.py\n")
    for k, p, n in found:
        f.write(f"{k}\t{p}\t{n}\n")
print(open(os.path.join(engine.CONTRACTS, "ASSUMPTIONS.allow")).read())

# ---- contracts/ITEMS.known: the items of the annotated files the contracts were written against
with engine.Scratch() as sc:
    ov = engine.build_overlay(sc.dir)
    with open(os.path.join(engine.CONTRACTS, "ITEMS.known"), "w") as f:
        f.write("# file<TAB>item   (items of the annotated source files at the time the contracts were written; an item not listed here has no contract)\n")
        for rel, fo in sorted(ov.files.items()):
            for k in check.item_keys(fo.src):
                f.write(f"{rel}\t{k}\n")
print(open(os.path.join(engine.CONTRACTS, "ITEMS.known")).read()[:1500])
