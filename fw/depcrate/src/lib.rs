// empty on purpose
