"""Build the annotated scratch copy of the real crate and run Verus on it."""
import glob
import hashlib
import json
import os
import re
import shutil
import subprocess
import tempfile
import time

from overlay import Overlay

HERE = os.path.dirname(os.path.abspath(__file__))
VERIF = os.path.dirname(HERE)
REPO = os.environ.get("VERIF_REPO", "/repo")
CONTRACTS = os.environ.get("VERIF_CONTRACTS") or os.path.join(VERIF, "contracts")
DEPS = os.path.join(VERIF, ".cache", "deps", "target", "debug", "deps")
VC_ORDER = ["lib.vc", "necessity.vc", "element.vc", "parser.vc"]


def sha(s):
    if isinstance(s, str):
        s = s.encode("utf-8")
    return hashlib.sha256(s).hexdigest()


def ensure_deps():
    r = subprocess.run([os.path.join(VERIF, "setup.sh")], capture_output=True, text=True)
    if r.returncode != 0:
        raise RuntimeError("setup.sh failed:\n" + r.stdout + r.stderr)


def rlib(name):
    c = sorted(glob.glob(os.path.join(DEPS, f"lib{name}-*.rlib")))
    if not c:
        raise RuntimeError(f"dependency rlib {name} not built")
    return c[-1]


class Scratch:
    def __init__(self, keep=False):
        base = os.environ.get("VERIF_TMP") or tempfile.gettempdir()
        self.dir = tempfile.mkdtemp(prefix="xsgverif-", dir=base)
        self.keep = keep

    def __enter__(self):
        return self

    def __exit__(self, *a):
        if not self.keep:
            shutil.rmtree(self.dir, ignore_errors=True)


PARSER_ONLY_VSPEC = ["perr"]     # spec modules that mention items of parser.rs
NECESSITY_ONLY_VSPEC = ["boundary", "nec", "c15"]   # spec modules that mention nothing outside necessity.rs


def build_overlay(scratch_dir, vc_files=None, mutate=None):
    """copy /repo/src, apply contracts; returns Overlay"""
    src_out = os.path.join(scratch_dir, "src")
    if os.path.exists(src_out):
        shutil.rmtree(src_out)
    shutil.copytree(os.path.join(REPO, "src"), src_out)
    shutil.copytree(os.path.join(CONTRACTS, "vspec"), os.path.join(src_out, "vspec"))
    if vc_files is not None and "parser.vc" not in vc_files:
        # parser.rs stays un-annotated (plain Rust that Verus ignores): drop the spec modules that refer to its items
        modrs = os.path.join(src_out, "vspec", "mod.rs")
        text = open(modrs, encoding="utf-8").read()
        for m in PARSER_ONLY_VSPEC:
            text = text.replace(f"pub mod {m};\n", "").replace(f"pub use {m}::*;\n", "")
            os.remove(os.path.join(src_out, "vspec", m + ".rs"))
        open(modrs, "w", encoding="utf-8").write(text)
    if vc_files is not None and "element.vc" not in vc_files:
        # element.rs and parser.rs stay un-annotated: keep only the spec modules that speak about necessity.rs
        modrs = os.path.join(src_out, "vspec", "mod.rs")
        text = open(modrs, encoding="utf-8").read()
        for m in re.findall(r"^pub mod (\w+);$", text, re.M):
            if m not in NECESSITY_ONLY_VSPEC:
                text = text.replace(f"pub mod {m};\n", "").replace(f"pub use {m}::*;\n", "")
                pth = os.path.join(src_out, "vspec", m + ".rs")
                if os.path.exists(pth):
                    os.remove(pth)
        open(modrs, "w", encoding="utf-8").write(text)
    vcs = [os.path.join(CONTRACTS, f) for f in (vc_files or VC_ORDER)]
    ov = Overlay(os.path.join(REPO, "src"), vcs)
    ov.materialise(src_out)
    if mutate:
        mutate(src_out, ov)
    return ov


def verus_cmd(extra=()):
    return ["verus", "src/lib.rs", "--crate-type", "lib", "--crate-name", "xml_schema_generator", "--edition", "2021",
            "-L", "dependency=" + DEPS,
            "--extern", "quick_xml=" + rlib("quick_xml"),
            "--extern", "log=" + rlib("log"),
            "--extern", "convert_string=" + rlib("convert_string"),
            "--triggers-mode", "silent", "--output-json", "--time", "--error-format=json",
            "--multiple-errors", "20", "--rlimit", "40"] + (list(extra) if "--num-threads" in extra else ["--num-threads", str(min(16, os.cpu_count() or 4))] + list(extra))


class VerusResult:
    def __init__(self):
        self.ok = False
        self.front_end_error = False
        self.diags = []          # error diagnostics (dicts)
        self.units = {}          # function -> {mode,time_us,rlimit,success}
        self.verified = self.errors = 0
        self.wall_s = 0.0
        self.smt_ms = 0
        self.raw_stdout = self.raw_stderr = ""
        self.cmd = ""
        self.version = ""
        self.timed_out = False


def run_verus(scratch_dir, extra=(), timeout=900):
    cmd = verus_cmd(extra)
    r = VerusResult()
    r.cmd = " ".join(cmd)
    t0 = time.time()
    try:
        p = subprocess.run(cmd, cwd=scratch_dir, capture_output=True, text=True, timeout=timeout)
    except subprocess.TimeoutExpired as e:
        r.timed_out = True
        r.wall_s = time.time() - t0
        r.raw_stdout = (e.stdout or b"").decode("utf-8", "replace") if isinstance(e.stdout, bytes) else (e.stdout or "")
        r.raw_stderr = (e.stderr or b"").decode("utf-8", "replace") if isinstance(e.stderr, bytes) else (e.stderr or "")
        return r
    r.wall_s = time.time() - t0
    r.raw_stdout, r.raw_stderr = p.stdout, p.stderr
    for line in p.stderr.split("\n"):
        line = line.strip()
        if not line.startswith("{"):
            continue
        try:
            d = json.loads(line)
        except Exception:
            continue
        if d.get("level") == "error" and not d.get("message", "").startswith("aborting due to"):
            r.diags.append(d)
    out = p.stdout
    j = None
    k = out.find("{")
    if k >= 0:
        try:
            j = json.loads(out[k:])
        except Exception:
            j = None
    if j is None:
        r.front_end_error = True
        return r
    vr = j.get("verification-results", {})
    r.verified = vr.get("verified", 0)
    r.errors = vr.get("errors", 0)
    r.ok = bool(vr.get("success"))
    r.version = j.get("verus", {}).get("version", "")
    if vr.get("encountered-vir-error") or (vr.get("encountered-error") and r.errors == 0 and not r.ok):
        r.front_end_error = True
    tm = j.get("times-ms", {})
    smt = tm.get("smt", {})
    r.smt_ms = smt.get("total", 0)
    for m in smt.get("smt-run-module-times", []):
        for f in m.get("function-breakdown", []):
            name = f["function"]
            u = r.units.setdefault(name, {"mode": f.get("mode:") or f.get("mode"), "time_us": 0, "rlimit": 0, "success": True, "queries": 0})
            u["time_us"] += f.get("time-micros", 0)
            u["rlimit"] += f.get("rlimit", 0)
            u["success"] = u["success"] and bool(f.get("success"))
            u["queries"] += 1
    return r


def diag_spans(d):
    """all (file, line_start, line_end, label, is_primary, text) of a diagnostic incl. children"""
    out = []

    def rec(x):
        for s in x.get("spans", []):
            txt = " ".join(t.get("text", "").strip() for t in s.get("text", []))
            out.append((s["file_name"], s["line_start"], s["line_end"], s.get("label"), s.get("is_primary"), txt))
        for c in x.get("children", []):
            rec(c)
    rec(d)
    return out
