import engine, sys
engine.ensure_deps()
seeds = [int(x) for x in sys.argv[1:]] or [0,1,2,3,4]
with engine.Scratch() as sc:
    ov = engine.build_overlay(sc.dir)
    print('problems', ov.problems, 'lost', ov.lost)
    for sd in seeds:
        r = engine.run_verus(sc.dir, extra=(["--smt-option", f"smt.random_seed={sd}"] if sd else []))
        bad=[u for u,v in r.units.items() if not v['success']]
        slow = sorted(r.units.items(), key=lambda kv: -kv[1]['time_us'])[:3]
        print('seed',sd,'verified',r.verified,'errors',r.errors,'fe',r.front_end_error,'wall',round(r.wall_s,1), bad, [(k.split('::')[-1], v['time_us']//1000) for k,v in slow])
        if r.front_end_error: print(r.raw_stderr[:2000]); break
        for d in r.diags[:6]:
            sp=engine.diag_spans(d); print('    ',d['message'][:80], [(s[0],s[1],s[5][:90]) for s in sp if s[4]][:2])
