#!/usr/bin/env python3
"""development-time: regenerate MANIFEST.json (kept in a script so that the claims, notes and n/a reasons are reviewed in one place)"""
import json, os
VERIF = os.path.dirname(os.path.dirname(os.path.abspath(__file__)))
NA = {
 "C02": "oracle is rustc plus quick_xml::de deserialisation of the generated text; neither is a function with a contract within reach of Verus/Kani here (generated programs, external crates)",
 "C04": "legality/uniqueness of identifiers is a property of strings built by to_pascal_case/to_snake_case (Unicode case mapping in an external crate), format!, join and HashMap<String,Vec<VecDeque<String>>>; Verus has no usable string theory and rejects this code, Kani blows up on symbolic strings (30 GB on nine u8)",
 "C10": "relates two renderings of one tree; the renderer (format!-based string building) is outside the verifiable subset, so no postcondition about its output exists to relate",
 "C12": "process-level behaviour (exit status, stdout/stderr bytes, file creation order) of clap/println!/File::create glue; expressing it needs a ghost file system and effect log, i.e. a model, not contracts on the code",
 "C13": "oracle is rustc plus serde_xml_rs deserialisation of generated text; no contract within reach",
 "C14": "PascalCase/concatenation string reasoning over the unverifiable name-hint computation (HashMap<String,Vec<VecDeque<String>>>, format!, join)",
}
PENDING = {
 "C01": "not claimed yet: follows from T1+T2 once the statement-level lemma is under contract (work in progress, see DESIGN.md section 5)",
 "C06": "not claimed yet: monotonicity lemmas are work in progress",
 "C09": "not claimed yet: pos_wf invariant is work in progress (attribute-order half is proved under C15)",
 "C11": "not claimed yet: lemma E assembly is work in progress",
}
BOUNDED = " A bounded search that executes the real library against statement-level oracles runs with every check; it supplies the concrete failing input for the replay file and stands in (labelled bounded, never counted as proved) for the parts outside the verifier's reach (the renderer, functions a change moves outside the Verus subset)."
base_note = "Trusted: Verus+Z3, vstd specs; assumed contracts A1-A6 (structural PartialEq, discriminant, slice contains, HashMap key model, quick_xml event model, five one-line leaves of the repository: to_str, Element::new, get_child, get_child_mut, remove_child, plus merge_attr via assume_specification); the renderer is outside the verifier. Listed per run in the evidence file."
def chk(pid, text, note, tech):
    return {"property_id": pid, "quick_cmd": f"./check {pid} --quick", "thorough_cmd": f"./check {pid} --thorough",
            "evidence_file": f"/verif/evidence/{pid}.json", "replay_cmd_template": f"./check {pid} --replay {{path}}",
            "engine": "verus-overlay",
            "level_claimed": {"category": "proof", "text": text + BOUNDED, "design_ref": "DESIGN.md section 5"},
            "level_note": note, "technique": tech}
CLAIMS = {
 "C15": ("Unbounded deductive proof: the real merge_necessity (annotated in a scratch copy on every run) satisfies res == spec_merge(vec, other), a spec function written from the property statement, for all lists of all lengths; loop invariants discharged by Verus/Z3.", "A1 structural equality of the payload type, A2 discriminant axiom; Verus+Z3 trusted.", "Verus contracts (requires/ensures/loop invariants) on the real function, overlay applied mechanically per run"),
 "C16": ("Unbounded deductive proof of the representation invariant (unique child names, also deeply) as pre/postcondition of every public tree operation, plus exact frame postconditions (add-existing is a no-op, mark-optional keeps the subtree).", "Tree half only; lookup/removal (get_child, get_child_mut, remove_child), Element::new and merge_attr are trusted leaves with assumed contracts (A6); induction over operation sequences is the standard meta-argument; the rendering sentence is covered by the bounded stand-in only.", "Verus contracts on the real Element methods"),
 "C03": ("Unbounded deductive proof that the tree returned by into_struct/extend_struct (through build_struct, parse_tag, tag_optional_children, count_children) equals g_build, the inference algorithm written as a spec function of (ghost tree, abstract event sequence) (refinement T1), for all event sequences and nesting depths.", base_note, "Verus refinement proof (fold invariant over the ghost event stream) on the real parser functions"),
 "C05": ("Parser half: the returned tree including internal child order is proved equal to a spec function of the inputs; vstd leaves HashMap iteration order unconstrained, so the proof can only exist if that order does not influence the result.", base_note + " Renderer determinism is covered by the bounded stand-in only (repeated parse+render in one process and across threads).", "Verus functional postconditions over an unconstrained HashMap-order model"),
 "C07": ("Unbounded deductive proof of panic freedom and termination of every function under contract: Verus's built-in obligations (arithmetic overflow, Vec::remove bounds, unwrap preconditions) and decreases clauses for every loop and for the build_struct/parse_tag recursion, for all event streams.", base_note + " quick_xml internals, allocation failure, stack exhaustion and the whole renderer are outside the verifier; the renderer and byte-level inputs are exercised by the bounded stand-in only.", "Verus implicit obligations + decreases on the real parser/tree functions"),
 "C11": ("Parser half, unbounded: (1) T1 - the real parser computes g_build of the abstract event stream, in which attribute values do not exist; (2) theorem_norm, proved in Verus over the ghost algorithm - g_build of a stream equals g_build of its normal form, where comments/PIs/declaration/DOCTYPE are dropped, CDATA is text, valid text content is erased and <x/> is <x></x> (layer E). Hence the returned tree modulo text content depends only on element names, attribute names, nesting, repetition and the presence of character data.", base_note + " Buffer-size independence is a property of quick_xml (outside the event model); that the renderer reads text only through is_some() and never reads count is assumed (A8); both are exercised by the bounded stand-in (all listed rewrites, BufReader capacities 1..64).", "Verus refinement proof on the real parser + spec-level normal-form theorem over the ghost algorithm"),
 "C01": ("Unbounded, two layers: (T1) the tree returned by into_struct/extend_struct equals g_build of the abstract event stream (Verus refinement proof on the real parser); (T2) theorem_occurrence_start/_empty, proved in Verus over g_build: after absorbing one occurrence of an element, a child is Mandatory only if it is present in this occurrence and was Mandatory so far (or this is the parent's first occurrence), single only if it was single so far and occurs at most once here, the text flag is set if character data occurs, every name seen has exactly one entry; attributes by theorem_c15 (Mandatory only if Mandatory in both). By induction over the occurrences (each node is updated only by such steps) the tree over-approximates every absorbed occurrence.", base_note + " The induction over occurrences is the standard meta-argument over the one-step theorems and is not itself machine-checked; the rendering of Option/Vec/String from the tree is outside the verifier (bounded stand-in: the tree is compared with a DOM-based oracle on generated document sequences).", "Verus refinement proof on the real parser + one-step soundness theorems over the ghost algorithm"),
 "C06": ("Unbounded for: extend_struct == absorbing one more root occurrence below a synthetic parent with the same g_build (T1 on the real extend_struct; corollary_extend_is_occurrence), an element-less input returns the previous structure (corollary_extend_elementless), every occurrence step is monotone - nothing dropped, Optional never becomes Mandatory, repeated never becomes single, text never lost, attributes by theorem_c15 (corollary_step_monotone, corollary_attrs_monotone); a failed extension returns Err and, by ownership, no partial tree (verdict == scan()).", base_note + " Independence of the order of the documents and idempotence of re-supplying a document are NOT proved; they are covered by the bounded stand-in only (reversal, rotation, re-supply, element-less inputs, comparison with the union oracle on generated sequences).", "Verus refinement proof on the real extend_struct + monotonicity corollaries over the ghost algorithm"),
 "C09": ("Tree half, unbounded: theorem_level_order (Verus, over g_build): children ordered by `position` are the previously known children followed by the new ones in order of first appearance at that nesting level; T1 ties the real parser to g_build, add_unique_child's contract assigns the next free position; attribute lists are in first-appearance order by the order clause of merge_necessity's contract (theorem_c15).", base_note + " The renderer's sort calls (by position / by XML name) and 'switching the option changes nothing else' are outside the verifier and covered by the bounded stand-in only (rendered field order for both sort options on generated documents).", "Verus refinement proof + position-order theorem over the ghost algorithm"),
 "C08": ("Unbounded deductive proof that the Ok/Err verdict of into_struct/extend_struct (and of build_struct/parse_tag) equals scan(), an independent stream-order oracle over the same abstract events, plus 'no element' for the initial parse.", base_note + " The error payload (reader error and byte position) is compared by the bounded stand-in only.", "Verus postcondition against a spec oracle"),
}
def main():
    checks = [chk(k, *v) for k, v in CLAIMS.items()]
    na = dict(NA)
    for k, v in PENDING.items():
        if k not in CLAIMS:
            na[k] = v
    m = {"version": 1, "setup_cmd": "./setup.sh",
         "hooks": {"guard": "none (contracts are applied to a scratch copy of /repo/src on every run; /repo carries no hooks)",
                   "enable": "./check <id> copies /repo/src, applies contracts/*.vc with fw/overlay.py and runs verus on the copy",
                   "baseline_off_cmd": "cd /repo && cargo test --workspace --no-fail-fast --offline",
                   "source_commits": [], "add_only": True},
         "engines": [{"name": "verus-overlay", "path": "fw/", "serves_properties": [c["property_id"] for c in checks],
                      "kind_free_text": "contract overlay (structural anchors) + Verus 0.2026.09.13 on the real crate linked against the real dependency rlibs; rt/ = bounded real-code harness for witnesses and stand-ins"}],
         "checks": checks,
         "notes": "Repairs of genuine defects are the four fix: commits in /repo (see known_findings.txt).",
         "not_applicable": [{"property_id": k, "reason": v} for k, v in sorted(na.items())]}
    json.dump(m, open(os.path.join(VERIF, "MANIFEST.json"), "w"), indent=1)
    print("claimed:", [c["property_id"] for c in checks], "n/a:", sorted(na))
main()
