"""Build and run the real-code harness (rt/) against an unmodified copy of /repo/src."""
import json
import os
import shutil
import subprocess
import tempfile

import engine

RT = os.path.join(engine.VERIF, "rt")
TARGET = os.path.join(engine.VERIF, ".cache", "rt-target")


class Harness:
    def __init__(self):
        self.dir = None
        self.bin = None
        self.error = None
        self.build_s = 0

    def build(self):
        import time
        t0 = time.time()
        base = os.environ.get("VERIF_TMP") or tempfile.gettempdir()
        self.dir = tempfile.mkdtemp(prefix="xsgrt-", dir=base)
        crate = os.path.join(self.dir, "crate")
        os.makedirs(crate)
        shutil.copytree(os.path.join(engine.REPO, "src"), os.path.join(crate, "src"))
        shutil.copy(os.path.join(RT, "crate.Cargo.toml"), os.path.join(crate, "Cargo.toml"))
        rt = os.path.join(self.dir, "rt")
        os.makedirs(os.path.join(rt, "src"))
        for f in os.listdir(os.path.join(RT, "src")):
            shutil.copy(os.path.join(RT, "src", f), os.path.join(rt, "src", f))
        man = open(os.path.join(RT, "Cargo.toml.in")).read().replace("@CRATE@", crate)
        open(os.path.join(rt, "Cargo.toml"), "w").write(man)
        lock = os.path.join(engine.REPO, "Cargo.lock")
        if os.path.exists(lock):
            shutil.copy(lock, os.path.join(rt, "Cargo.lock"))
        env = dict(os.environ)
        env["CARGO_NET_OFFLINE"] = "true"
        env["CARGO_TARGET_DIR"] = os.path.join(self.dir, "target")
        # dependencies are compiled once into a cache and copied in, the two path crates are always rebuilt
        if os.path.isdir(TARGET):
            shutil.copytree(TARGET, env["CARGO_TARGET_DIR"])
        p = subprocess.run(["cargo", "build", "--release", "--offline", "-q"], cwd=rt, env=env, capture_output=True, text=True)
        self.build_s = time.time() - t0
        if p.returncode != 0:
            self.error = p.stderr[-3000:]
            return False
        self.bin = os.path.join(env["CARGO_TARGET_DIR"], "release", "xsg_rt")
        return True

    def seed_cache(self):
        """store the compiled third-party dependencies (not the path crates) for later runs"""
        if not self.dir:
            return
        src = os.path.join(self.dir, "target")
        if os.path.isdir(TARGET):
            return
        tmp = TARGET + ".tmp"
        shutil.rmtree(tmp, ignore_errors=True)
        shutil.copytree(src, tmp)
        rel = os.path.join(tmp, "release")
        for sub in ("deps", ".fingerprint", "incremental", "build", ""):
            d = os.path.join(rel, sub)
            if not os.path.isdir(d):
                continue
            for f in os.listdir(d):
                if "xsg_rt" in f or "xml_schema_generator" in f:
                    pth = os.path.join(d, f)
                    shutil.rmtree(pth, ignore_errors=True) if os.path.isdir(pth) else os.remove(pth)
        os.rename(tmp, TARGET)

    def run(self, args, timeout=600):
        p = subprocess.run([self.bin] + args, capture_output=True, text=True, timeout=timeout)
        return p.returncode, p.stdout, p.stderr

    def search(self, prop, tier, seed, timeout=900):
        rc, out, err = self.run(["search", prop, tier, str(seed)], timeout=timeout)
        witness, stats = None, None
        for line in out.split("\n"):
            line = line.strip()
            if not line.startswith("{"):
                continue
            try:
                d = json.loads(line)
            except Exception:
                continue
            if "witness" in d and witness is None:
                witness = d["witness"]
            if "stats" in d:
                stats = d["stats"]
        return witness, stats

    def replay(self, w):
        """re-execute a witness against the real code; returns (violated, text)"""
        kind = w.get("kind")
        if kind == "merge":
            rc, out, _ = self.run(["merge", w["a"], w["b"]])
        elif kind == "ops":
            rc, out, _ = self.run(["ops"] + w["ops"].split())
        elif kind == "far":
            rc, out, _ = self.run(["far", w["property"]])
        else:
            files = []
            for i, h in enumerate(w.get("docs_hex", [])):
                f = os.path.join(self.dir, f"in{i}.bin")
                open(f, "wb").write(bytes.fromhex(h))
                files.append(f)
            rc, out, _ = self.run([("bytes" if kind == "bytes" else "docs"), w["property"]] + files)
        return rc == 1, out.strip()

    def close(self):
        if self.dir:
            shutil.rmtree(self.dir, ignore_errors=True)
            self.dir = None
