"""Bounded search on the real code (rt/): witness for a failed obligation, bounded stand-in where the
verifier cannot reach.  Never counted as proof."""
import time

import rt

_h = None


def harness():
    global _h
    if _h is None:
        h = rt.Harness()
        if not h.build():
            err = h.error
            h.close()
            raise RuntimeError("harness build failed:\n" + (err or ""))
        h.seed_cache()
        _h = h
    return _h


def close():
    global _h
    if _h is not None:
        _h.close()
        _h = None


def search(pid, tier, seed):
    """returns dict(witness=..., stats=..., wall_s=..., error=...)"""
    t0 = time.time()
    try:
        h = harness()
    except Exception as e:  # the changed library does not compile against the harness, or similar
        return {"witness": None, "stats": None, "wall_s": time.time() - t0, "error": str(e)[-1500:]}
    try:
        w, st = h.search(pid, tier, seed, timeout=3000 if tier == "thorough" else 600)
    except Exception as e:
        return {"witness": None, "stats": None, "wall_s": time.time() - t0, "error": "search failed: " + str(e)[-500:]}
    confirmed = None
    if w is not None:
        # re-execute the reported input in a fresh process before believing it
        confirmed, text = h.replay(w)
        w["replay_output"] = text
        if not confirmed:
            w = None
    return {"witness": w, "stats": st, "wall_s": round(time.time() - t0, 2), "error": None}


def replay(w):
    h = harness()
    violated, text = h.replay(w)
    return violated, text
