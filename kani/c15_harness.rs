#[cfg(kani)]
mod kani_c15 {
    use super::*;
    fn mk(vals: &[u8], tags: &[bool]) -> Vec<Necessity<u8>> {
        let mut v = Vec::new();
        let mut i = 0;
        while i < vals.len() {
            v.push(if tags[i] { Necessity::Mandatory(vals[i]) } else { Necessity::Optional(vals[i]) });
            i += 1;
        }
        v
    }
    fn is_m(n: &Necessity<u8>) -> bool { matches!(n, Necessity::Mandatory(_)) }
    /// statement of C15 for duplicate-free lists a (len 2) and b (len 2), all payloads and tags symbolic
    #[kani::proof]
    #[kani::unwind(6)]
    fn c15_shape_2_2() {
        let av: [u8; 2] = kani::any(); let at: [bool; 2] = kani::any();
        let bv: [u8; 2] = kani::any(); let bt: [bool; 2] = kani::any();
        kani::assume(av[0] != av[1]);
        kani::assume(bv[0] != bv[1]);
        let r = merge_necessity(mk(&av, &at), mk(&bv, &bt));
        // first the items of a in order
        assert!(r.len() >= 2);
        assert!(*r[0].inner_t() == av[0] && *r[1].inner_t() == av[1]);
        // mandatory iff mandatory in both
        let mut i = 0;
        while i < 2 {
            let mut both = false;
            let mut j = 0;
            while j < 2 { if bv[j] == av[i] && bt[j] && at[i] { both = true; } j += 1; }
            assert!(is_m(&r[i]) == both);
            i += 1;
        }
        // then the items only in b, optional, in b's order
        let b0_new = bv[0] != av[0] && bv[0] != av[1];
        let b1_new = bv[1] != av[0] && bv[1] != av[1];
        let expect = 2 + (b0_new as usize) + (b1_new as usize);
        assert!(r.len() == expect);
        let mut k = 2;
        if b0_new { assert!(*r[k].inner_t() == bv[0] && !is_m(&r[k])); k += 1; }
        if b1_new { assert!(*r[k].inner_t() == bv[1] && !is_m(&r[k])); }
    }
}
