use vstd::prelude::*;
verus! {
#[verifier::external_body]
pub struct Rd { x: u64 }
pub uninterp spec fn pending(r: Rd) -> Seq<u8>;

#[verifier::external_body]
fn pop(r: &mut Rd) -> (b: Option<u8>)
    ensures
        pending(*old(r)).len() == 0 ==> b is None && pending(*final(r)) == pending(*old(r)),
        pending(*old(r)).len() > 0 ==> b == Some(pending(*old(r))[0]) && pending(*final(r)) == pending(*old(r)).drop_first(),
{ unimplemented!() }

pub open spec fn opt_old(r: Option<&mut Rd>) -> Seq<u8> { match r { Some(x) => pending(*x), None => Seq::empty() } }
#[verifier::prophetic]
pub open spec fn opt_fin(r: Option<&mut Rd>) -> Seq<u8> { match r { Some(x) => pending(*final(x)), None => Seq::empty() } }

fn drain(r: &mut Rd) -> (n: u64)
    ensures pending(*final(r)).len() == 0, 
    decreases pending(*old(r)).len(), 0int,
{
    match pop(r) {
        None => 0,
        Some(_) => { let k = inner(Some(r)); if k < 1000 { k + 1 } else { k } }
    }
}
fn inner(r: Option<&mut Rd>) -> (n: u64)
    ensures opt_fin(r).len() == 0,
    decreases opt_old(r).len(), 1int,
{
    if let Some(rr) = r { drain(rr) } else { 0 }
}
}
