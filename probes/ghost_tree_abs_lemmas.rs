use vstd::prelude::*;
verus! {
pub enum Necessity<T> { Optional(T), Mandatory(T) }
impl<T> Necessity<T> {
    pub open spec fn val(self) -> T { match self { Necessity::Optional(t) => t, Necessity::Mandatory(t) => t } }
}
pub struct Element<T> {
    pub name: T, pub text: Option<T>, pub standalone: bool, pub count: u32,
    pub attributes: Vec<Necessity<T>>, pub children: Vec<Necessity<Element<T>>>, pub position: Option<usize>,
}
/// ghost schema tree: exact internal order, text content and machine widths erased
pub ghost struct GEl {
    pub name: String, pub text_some: bool, pub standalone: bool, pub count: int,
    pub attrs: Seq<Necessity<String>>, pub kids: Seq<Necessity<GEl>>, pub position: Option<usize>,
}
pub open spec fn abs_n(n: Necessity<Element<String>>) -> Necessity<GEl>
    decreases n, 0int
{
    match n { Necessity::Optional(e) => Necessity::Optional(abs(e)), Necessity::Mandatory(e) => Necessity::Mandatory(abs(e)) }
}
pub open spec fn abs_kids(s: Seq<Necessity<Element<String>>>) -> Seq<Necessity<GEl>>
    decreases s, 1int
{
    if s.len() == 0 { Seq::empty() } else { abs_kids(s.drop_last()).push(abs_n(s.last())) }
}
pub open spec fn abs(e: Element<String>) -> GEl
    decreases e, 2int
{
    GEl { name: e.name, text_some: e.text is Some, standalone: e.standalone, count: e.count as int,
          attrs: e.attributes@, kids: abs_kids(e.children@), position: e.position }
}
pub proof fn lemma_abs_kids_index(s: Seq<Necessity<Element<String>>>)
    ensures abs_kids(s).len() == s.len(), forall|i: int| 0 <= i < s.len() ==> (#[trigger] abs_kids(s)[i]) == abs_n(s[i]),
    decreases s.len()
{
    if s.len() > 0 { lemma_abs_kids_index(s.drop_last()); }
}
pub proof fn lemma_abs_kids_push(s: Seq<Necessity<Element<String>>>, x: Necessity<Element<String>>)
    ensures abs_kids(s.push(x)) == abs_kids(s).push(abs_n(x)),
{
    assert(s.push(x).drop_last() == s);
}
pub proof fn lemma_abs_kids_remove(s: Seq<Necessity<Element<String>>>, i: int)
    requires 0 <= i < s.len(),
    ensures abs_kids(s.remove(i)) == abs_kids(s).remove(i),
{
    lemma_abs_kids_index(s); lemma_abs_kids_index(s.remove(i));
    assert(abs_kids(s.remove(i)) =~= abs_kids(s).remove(i));
}
// ghost-level demotion and its agreement with the concrete one
pub open spec fn g_idx(kids: Seq<Necessity<GEl>>, name: String) -> int decreases kids.len()
{ if kids.len() == 0 { 0 } else if kids[0].val().name == name { 0 } else { 1 + g_idx(kids.drop_first(), name) } }
pub open spec fn kid_idx(kids: Seq<Necessity<Element<String>>>, name: String) -> int decreases kids.len()
{ if kids.len() == 0 { 0 } else if kids[0].val().name == name { 0 } else { 1 + kid_idx(kids.drop_first(), name) } }
pub proof fn lemma_idx_agree(kids: Seq<Necessity<Element<String>>>, name: String)
    ensures g_idx(abs_kids(kids), name) == kid_idx(kids, name), 0 <= kid_idx(kids, name) <= kids.len(),
    decreases kids.len()
{
    lemma_abs_kids_index(kids);
    if kids.len() > 0 {
        lemma_abs_kids_index(kids.drop_first());
        assert(abs_kids(kids).drop_first() =~= abs_kids(kids.drop_first()));
        lemma_idx_agree(kids.drop_first(), name);
    }
}
pub open spec fn demote(kids: Seq<Necessity<Element<String>>>, name: String) -> Seq<Necessity<Element<String>>> {
    let i = kid_idx(kids, name);
    if i < kids.len() { kids.remove(i).push(Necessity::Optional(kids[i].val())) } else { kids }
}
pub open spec fn g_demote(kids: Seq<Necessity<GEl>>, name: String) -> Seq<Necessity<GEl>> {
    let i = g_idx(kids, name);
    if i < kids.len() { kids.remove(i).push(Necessity::Optional(kids[i].val())) } else { kids }
}
pub proof fn lemma_demote_agree(kids: Seq<Necessity<Element<String>>>, name: String)
    ensures abs_kids(demote(kids, name)) == g_demote(abs_kids(kids), name),
{
    lemma_idx_agree(kids, name);
    lemma_abs_kids_index(kids);
    let i = kid_idx(kids, name);
    if i < kids.len() {
        lemma_abs_kids_remove(kids, i);
        lemma_abs_kids_push(kids.remove(i), Necessity::Optional(kids[i].val()));
    }
}
}
