use vstd::prelude::*;
verus! {
#[verifier::reject_recursive_types(T)]
#[verifier::external_type_specification]
#[verifier::external_body]
pub struct ExDiscriminant<T>(std::mem::Discriminant<T>);
pub uninterp spec fn discr_of<T>(t: &T) -> int;
pub uninterp spec fn discr_val<T>(d: std::mem::Discriminant<T>) -> int;
pub assume_specification<T> [std::mem::discriminant] (v: &T) -> (d: std::mem::Discriminant<T>)
    ensures discr_val(d) == discr_of(v);
pub assume_specification<T> [<std::mem::Discriminant<T> as PartialEq>::eq] (a: &std::mem::Discriminant<T>, b: &std::mem::Discriminant<T>) -> (r: bool)
    ensures r == (discr_val(*a) == discr_val(*b));

pub assume_specification<T: PartialEq> [<[T]>::contains] (s: &[T], x: &T) -> (r: bool)
    ensures
        <T as vstd::std_specs::cmp::PartialEqSpec>::obeys_eq_spec() ==> r == (exists|i: int| 0 <= i < s@.len() && #[trigger] vstd::std_specs::cmp::PartialEqSpec::eq_spec(&s@[i], x));


// ---- quick_xml boundary (assumed, trusted) ----
#[verifier::external_type_specification] #[verifier::external_body] #[verifier::reject_recursive_types(R)]
pub struct ExReader<R>(quick_xml::reader::Reader<R>);
#[verifier::external_type_specification] #[verifier::external_body]
pub struct ExBytesStart<'a>(quick_xml::events::BytesStart<'a>);
#[verifier::external_type_specification] #[verifier::external_body]
pub struct ExBytesEnd<'a>(quick_xml::events::BytesEnd<'a>);
#[verifier::external_type_specification] #[verifier::external_body]
pub struct ExBytesText<'a>(quick_xml::events::BytesText<'a>);
#[verifier::external_type_specification] #[verifier::external_body]
pub struct ExBytesCData<'a>(quick_xml::events::BytesCData<'a>);
#[verifier::external_type_specification] #[verifier::external_body]
pub struct ExBytesDecl<'a>(quick_xml::events::BytesDecl<'a>);
#[verifier::external_type_specification] #[verifier::external_body]
pub struct ExBytesPI<'a>(quick_xml::events::BytesPI<'a>);
#[verifier::external_type_specification]
pub struct ExEvent<'a>(quick_xml::events::Event<'a>);
#[verifier::external_type_specification] #[verifier::external_body]
pub struct ExQName<'a>(quick_xml::name::QName<'a>);
#[verifier::external_type_specification] #[verifier::external_body]
pub struct ExAttributes<'a>(quick_xml::events::attributes::Attributes<'a>);
#[verifier::external_type_specification]
pub struct ExAttribute<'a>(quick_xml::events::attributes::Attribute<'a>);
#[verifier::external_type_specification] #[verifier::external_body]
pub struct ExAttrError(quick_xml::events::attributes::AttrError);
#[verifier::external_type_specification] #[verifier::external_body]
pub struct ExQxError(quick_xml::Error);
#[verifier::external_type_specification] #[verifier::external_body]
pub struct ExFromUtf8Error(std::string::FromUtf8Error);

pub assume_specification<'b, R: std::io::BufRead> [quick_xml::reader::Reader::<R>::read_event_into] (r: &mut quick_xml::Reader<R>, buf: &'b mut std::vec::Vec<u8>) -> std::result::Result<quick_xml::events::Event<'b>, quick_xml::Error>;
pub assume_specification<R> [quick_xml::Reader::<R>::buffer_position] (_0: &quick_xml::Reader<R>) -> u64;
pub assume_specification<'a, 's> [quick_xml::events::BytesStart::<'a>::name] (_0: &'s quick_xml::events::BytesStart<'a>) -> quick_xml::name::QName<'s>;
pub assume_specification<'a, 's> [quick_xml::events::BytesStart::<'a>::attributes] (_0: &'s quick_xml::events::BytesStart<'a>) -> quick_xml::events::attributes::Attributes<'s>;
pub assume_specification<'a> [quick_xml::events::BytesText::<'a>::into_inner] (_0: quick_xml::events::BytesText<'a>) -> std::borrow::Cow<'a, [u8]>;
pub assume_specification<'a> [quick_xml::events::BytesCData::<'a>::into_inner] (_0: quick_xml::events::BytesCData<'a>) -> std::borrow::Cow<'a, [u8]>;

pub assume_specification<T: std::cmp::PartialEq + std::fmt::Display + std::fmt::Debug> [crate::element::Element::<T>::merge_attr] (_0: crate::element::Element<T>, _1: std::vec::Vec<crate::necessity::Necessity<T>>) -> crate::element::Element<T>;

pub assume_specification<'a, T, P> [<std::slice::Iter<'a, T> as std::iter::Iterator>::position] (it: &mut std::slice::Iter<'a, T>, p: P) -> (r: std::option::Option<usize>)
    where
        P: std::ops::FnMut(<std::slice::Iter<'a, T> as std::iter::Iterator>::Item,) -> bool,
        std::slice::Iter<'a, T>: std::marker::Sized,
    ensures
        true,
;
}
