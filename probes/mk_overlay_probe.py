#!/usr/bin/env python3
"""Design probe (NOT the framework): build a scratch copy of /repo/src with a hand-written
Verus overlay, to find out which contracts the installed Verus can discharge on the real code.

usage: mk_overlay_probe.py OUTDIR [--fix D1,D2,D3] [--parser]
  OUTDIR/src      annotated copy
  --fix           apply the candidate repairs discussed in DESIGN.md section 6 first
  --parser        also wrap parser.rs in verus! (needs the quick_xml boundary specs)
Every edit is a string insertion at a located anchor, except the ones listed in DESIGN.md 3.2 (E2).
"""
import os, re, shutil, sys

REPO = "/repo/src"
HERE = os.path.dirname(os.path.abspath(__file__))


def sub1(s, old, new, what):
    if s.count(old) != 1:
        raise SystemExit(f"anchor lost ({what}): {s.count(old)} matches for {old[:60]!r}")
    return s.replace(old, new)


def wrap_nontest(s, pre=""):
    i = s.index("#[cfg(test)]\nmod tests")
    head, tail = s[:i], s[i:]
    lines = head.split("\n")
    k = 0
    while k < len(lines) and (lines[k].startswith("//!") or lines[k].strip() == ""):
        k += 1
    docs = "\n".join(lines[:k])
    rest = "\n".join(lines[k:])
    return docs + "\nuse vstd::prelude::*;\n#[allow(unused_imports)]\nuse crate::vspec::*;\nverus! {\n" + pre + rest + "\n} // verus!\n" + tail


def main():
    out = sys.argv[1]
    fixes = set()
    if "--fix" in sys.argv:
        fixes = set(sys.argv[sys.argv.index("--fix") + 1].split(","))
    with_parser = "--parser" in sys.argv
    if os.path.exists(out):
        shutil.rmtree(out)
    shutil.copytree(REPO, os.path.join(out, "src"))
    src = os.path.join(out, "src")

    # ---------------- candidate repairs (DESIGN.md section 6) ----------------
    p = os.path.join(src, "necessity.rs"); s = open(p).read()
    if "D1" in fixes:
        s = sub1(s, "for other_item in other.into_iter().rev() {", "for other_item in other.into_iter() {", "D1")
    open(p, "w").write(s)
    p = os.path.join(src, "element.rs"); s = open(p).read()
    if "D2" in fixes:
        s = sub1(s, "    pub fn add_unique_child(&mut self, mut child: Element<T>) {\n",
                 "    pub fn add_unique_child(&mut self, mut child: Element<T>) {\n        if self.get_child(&child.name).is_some() {\n            return;\n        }\n", "D2")
    open(p, "w").write(s)
    p = os.path.join(src, "parser.rs"); s = open(p).read()
    if "D3" in fixes:
        a = s.index("        for (child_name, child_count) in children_count.iter() {")
        b = s.index("    if let Some(current_tag) = root.get_child_mut(&to_str(e.name())?) {")
        s = s[:a] + '''        for child in parent.children().iter() {
            let c = child.inner_t();
            match children_count.get(&c.name) {
                Some(child_count) => {
                    if child_count == &c.count() {
                        to_optional.push(c.name.clone());
                    }
                }
                None => {
                    if let Necessity::Mandatory(_) = child {
                        to_optional.push(c.name.clone());
                    }
                }
            }
        }
    }

''' + s[b:]
    open(p, "w").write(s)

    # ---------------- overlay ----------------
    for name in os.listdir(os.path.join(HERE, "overlay")):
        pass
    ov = {}
    for name in os.listdir(os.path.join(HERE, "overlay")):
        ov[name] = open(os.path.join(HERE, "overlay", name)).read()

    # lib.rs
    p = os.path.join(src, "lib.rs"); s = open(p).read()
    s = sub1(s, "#[macro_use]\nextern crate log;", "#[allow(unused_imports)]\nuse vstd::prelude::*;\n#[macro_use]\nextern crate log;", "lib prelude")
    s = sub1(s, "\nmod element;\n", "\nmod vspec;\nmod element;\n", "lib mod")
    open(p, "w").write(s)
    open(os.path.join(src, "vspec.rs"), "w").write(ov["vspec.rs"])

    # apply per-file insertion lists:  overlay/<file>.ins  =  blocks "@@@ <mode>\n<anchor>\n===\n<text>\n"
    def apply_ins(path, text):
        s = open(path).read()
        for block in ("\n" + text).split("\n@@@ ")[1:]:
            header, rest = block.split("\n", 1)
            anchor, ins = rest.split("\n===\n", 1)
            ins = ins.rstrip("\n")
            mode = header.strip()
            if mode == "after":
                s = sub1(s, anchor, anchor + ins, anchor[:40])
            elif mode == "before":
                s = sub1(s, anchor, ins + "\n" + anchor, anchor[:40])
            elif mode == "replace":  # only for the E2 edits
                s = sub1(s, anchor, ins, anchor[:40])
            else:
                raise SystemExit("bad mode " + mode)
        open(path, "w").write(s)

    # necessity.rs
    p = os.path.join(src, "necessity.rs")
    nins = ov["necessity.ins"]
    if "D1" not in fixes:  # keep the anchors usable on the unrepaired tree
        nins = nins.replace("    for other_item in other.into_iter() {\n        let mut found = false;", "    for other_item in other.into_iter().rev() {\n        let mut found = false;")
        nins = nins.replace("for other_item in it3: other.into_iter()\n", "for other_item in it3: other.into_iter().rev()\n")
    apply_ins(p, nins)
    s = open(p).read(); open(p, "w").write(wrap_nontest(s))

    # element.rs
    p = os.path.join(src, "element.rs")
    apply_ins(p, ov["element.ins"])
    s = open(p).read()
    s = re.sub(r"\n    (standalone|count|attributes|children|position):", r"\n    pub \1:", s, count=5)  # E2-a
    a = s.index("/// represents the structure and characteristics of an XML element")
    b = s.index("impl<T: std::cmp::PartialEq + std::fmt::Display + std::fmt::Debug + std::clone::Clone> Element<T> {")
    c = s.index("impl<T: std::cmp::PartialEq> PartialEq for Element<T> {")
    d = s.index("#[cfg(test)]\nmod tests")
    s = (s[:a] + "use vstd::prelude::*;\n#[allow(unused_imports)]\nuse crate::vspec::*;\nverus! {\n" + s[a:b] + "\n} // verus!\n" + s[b:c]
         + "verus! {\n" + s[c:d] + "} // verus!\n" + s[d:])
    open(p, "w").write(s)

    # parser.rs
    if with_parser:
        p = os.path.join(src, "parser.rs")
        apply_ins(p, ov["parser.ins"])
        s = open(p).read(); open(p, "w").write(wrap_nontest(s))


if __name__ == "__main__":
    main()
