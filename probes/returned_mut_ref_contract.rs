use vstd::prelude::*;
verus! {
pub struct P { pub name: u8, pub kids: Vec<u8> }
pub struct Root { pub ps: Vec<P> }

#[verifier::external_body]
fn get_mut(r: &mut Root, name: u8) -> (res: Option<&mut P>)
    ensures
        match res {
            Some(p) => exists|i: int| 0 <= i < old(r).ps@.len() && old(r).ps@[i].name == name
                && *p == old(r).ps@[i]
                && final(r).ps@ == old(r).ps@.update(i, *final(p)),
            None => final(r).ps@ == old(r).ps@ && forall|i: int| 0 <= i < old(r).ps@.len() ==> old(r).ps@[i].name != name,
        }
{
    r.ps.iter_mut().find(|c| c.name == name)
}

fn push_kid(r: &mut Root, name: u8, k: u8)
    ensures
        final(r).ps@.len() == old(r).ps@.len(),
        forall|i: int| 0 <= i < old(r).ps@.len() && old(r).ps@[i].name != name ==> final(r).ps@[i] == old(r).ps@[i],
{
    if let Some(p) = get_mut(r, name) {
        p.kids.push(k);
    }
}
}
