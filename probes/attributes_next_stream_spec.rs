use vstd::prelude::*;
verus! {
#[verifier::external_type_specification] #[verifier::external_body]
pub struct ExBytesStart<'a>(quick_xml::events::BytesStart<'a>);
#[verifier::external_type_specification] #[verifier::external_body]
pub struct ExQName<'a>(quick_xml::name::QName<'a>);
#[verifier::external_type_specification] #[verifier::external_body]
pub struct ExAttributes<'a>(quick_xml::events::attributes::Attributes<'a>);
#[verifier::external_type_specification]
pub struct ExAttribute<'a>(quick_xml::events::attributes::Attribute<'a>);
#[verifier::external_type_specification] #[verifier::external_body]
pub struct ExAttrError(quick_xml::events::attributes::AttrError);

pub uninterp spec fn tag_attrs(e: quick_xml::events::BytesStart<'_>) -> Seq<Seq<u8>>;
pub uninterp spec fn pending(a: quick_xml::events::attributes::Attributes<'_>) -> Seq<Seq<u8>>;
pub uninterp spec fn qbytes(q: quick_xml::name::QName<'_>) -> Seq<u8>;

pub assume_specification<'a, 's> [quick_xml::events::BytesStart::<'a>::attributes] (e: &'s quick_xml::events::BytesStart<'a>) -> (r: quick_xml::events::attributes::Attributes<'s>)
    ensures pending(r) == tag_attrs(*e);

pub assume_specification<'a> [<quick_xml::events::attributes::Attributes<'a> as Iterator>::next] (it: &mut quick_xml::events::attributes::Attributes<'a>) -> (r: Option<<quick_xml::events::attributes::Attributes<'a> as std::iter::Iterator>::Item>)
    ensures
        pending(*old(it)).len() == 0 ==> r is None,
        pending(*old(it)).len() > 0 ==> r is Some && pending(*final(it)) == pending(*old(it)).drop_first()
            && (r->Some_0 is Ok ==> qbytes(r->Some_0->Ok_0.key) == pending(*old(it))[0]);

fn count(e: &quick_xml::events::BytesStart<'_>) -> (n: usize)
{
    let mut n: usize = 0;
    for attr in e.attributes() {
        if n < 100 { n = n + 1; }
    }
    assert(false); // reachability probe
    n
}
fn count2(e: &quick_xml::events::BytesStart<'_>) -> (n: usize)
    ensures n as int == tag_attrs(*e).len() || n == 100
{
    let mut n: usize = 0;
    let mut it = e.attributes();
    loop
        invariant n == 100 || n as int + pending(it).len() == tag_attrs(*e).len(),
        decreases pending(it).len(),
    {
        match it.next() {
            None => { return n; }
            Some(_) => { if n < 100 { n = n + 1; } }
        }
    }
}
}
