use vstd::prelude::*;
use vstd::std_specs::iter::*;
verus! {
#[verifier::external_type_specification] #[verifier::external_body]
pub struct ExBytesStart<'a>(quick_xml::events::BytesStart<'a>);
#[verifier::external_type_specification] #[verifier::external_body]
pub struct ExQName<'a>(quick_xml::name::QName<'a>);
#[verifier::external_type_specification] #[verifier::external_body]
pub struct ExAttributes<'a>(quick_xml::events::attributes::Attributes<'a>);
#[verifier::external_type_specification]
pub struct ExAttribute<'a>(quick_xml::events::attributes::Attribute<'a>);
#[verifier::external_type_specification] #[verifier::external_body]
pub struct ExAttrError(quick_xml::events::attributes::AttrError);

/// abstract per-attribute outcome of the tag, in document order: Some(key bytes) or None for a malformed/duplicated attribute
pub uninterp spec fn tag_attrs(e: quick_xml::events::BytesStart<'_>) -> Seq<Option<Seq<u8>>>;
pub uninterp spec fn qbytes(q: quick_xml::name::QName<'_>) -> Seq<u8>;
pub open spec fn abs_item(r: Result<quick_xml::events::attributes::Attribute<'_>, quick_xml::events::attributes::AttrError>) -> Option<Seq<u8>> {
    match r { Ok(a) => Some(qbytes(a.key)), Err(_) => None }
}

pub assume_specification<'a, 's> [quick_xml::events::BytesStart::<'a>::attributes] (e: &'s quick_xml::events::BytesStart<'a>) -> (r: quick_xml::events::attributes::Attributes<'s>)
    ensures
        r.obeys_prophetic_iter_laws(),
        r.will_return_none(),
        r.decrease() is Some,
        r.remaining().len() == tag_attrs(*e).len(),
        forall|i: int| 0 <= i < r.remaining().len() ==> abs_item(#[trigger] r.remaining()[i]) == tag_attrs(*e)[i];



pub open spec fn a_laws(a: quick_xml::events::attributes::Attributes<'_>) -> bool { a.obeys_prophetic_iter_laws() }
#[verifier::prophetic]
pub open spec fn a_wrn(a: quick_xml::events::attributes::Attributes<'_>) -> bool { a.will_return_none() }
#[verifier::prophetic]
pub open spec fn a_rem<'a>(a: quick_xml::events::attributes::Attributes<'a>) -> Seq<<quick_xml::events::attributes::Attributes<'a> as std::iter::Iterator>::Item> { a.remaining() }
pub open spec fn a_dec(a: quick_xml::events::attributes::Attributes<'_>) -> Option<nat> { a.decrease() }
pub assume_specification<'a> [<quick_xml::events::attributes::Attributes<'a> as Iterator>::next] (it: &mut quick_xml::events::attributes::Attributes<'a>) -> (r: Option<<quick_xml::events::attributes::Attributes<'a> as std::iter::Iterator>::Item>)
    ensures
        a_laws(*old(it)) ==> a_laws(*final(it)),
        a_wrn(*old(it)) ==> a_wrn(*final(it)),
        a_rem(*old(it)).len() == 0 ==> r is None && a_rem(*final(it)) == a_rem(*old(it)),
        a_rem(*old(it)).len() > 0 ==> r == Some(a_rem(*old(it))[0]) && a_rem(*final(it)) == a_rem(*old(it)).drop_first(),
        a_dec(*old(it)) is Some ==> a_dec(*final(it)) is Some && (r is Some ==> a_dec(*final(it))->Some_0 < a_dec(*old(it))->Some_0),
;

fn count(e: &quick_xml::events::BytesStart<'_>) -> (n: usize)
    ensures n as int == tag_attrs(*e).len() || n == 100
{
    let mut n: usize = 0;
    for attr in it: e.attributes()
        invariant n == 100 || n as int == it.index@,
    {
        if n < 100 { n = n + 1; }
    }
    n
}
}
