#!/bin/bash
D=/tmp/w/deps/crate/target/debug/deps
cd "${1:?usage: run_overlay_probe.sh DIR [verus args]}" && shift && verus src/lib.rs --crate-type lib --crate-name xml_schema_generator --edition 2021 -L dependency=$D --extern quick_xml=$(ls $D/libquick_xml-*.rlib) --extern log=$(ls $D/liblog-*.rlib) --extern convert_string=$(ls $D/libconvert_string-*.rlib) --triggers-mode silent "$@" 2>&1 | grep -v "^\[rust_verify" | grep -v -E "autoderive|^ *= help: to suppress"
