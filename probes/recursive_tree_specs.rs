use vstd::prelude::*;
verus! {
pub enum Necessity<T> { Optional(T), Mandatory(T) }
impl<T> Necessity<T> {
    pub open spec fn val(self) -> T { match self { Necessity::Optional(t) => t, Necessity::Mandatory(t) => t } }
}
pub struct Element<T> {
    pub name: T,
    pub text: Option<T>,
    pub standalone: bool,
    pub count: u32,
    pub attributes: Vec<Necessity<T>>,
    pub children: Vec<Necessity<Element<T>>>,
    pub position: Option<usize>,
}
impl<T> Element<T> {
    /// child names pairwise distinct, recursively
    pub open spec fn wf(self) -> bool
        decreases self
    {
        &&& forall|i: int, j: int| 0 <= i < j < self.children@.len() ==> self.children@[i].val().name != self.children@[j].val().name
        &&& forall|i: int| 0 <= i < self.children@.len() ==> (#[trigger] self.children@[i]).val().wf()
    }
    pub open spec fn size(self) -> nat
        decreases self
    {
        1 + Self::size_list(self.children@)
    }
    pub open spec fn size_list(s: Seq<Necessity<Element<T>>>) -> nat
        decreases s
    {
        if s.len() == 0 { 0 } else { s[0].val().size() + Self::size_list(s.drop_first()) }
    }
}
}
fn main() {}
