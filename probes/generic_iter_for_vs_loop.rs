use vstd::prelude::*;
use vstd::std_specs::iter::*;
verus! {
#[verifier::loop_isolation(false)]
fn c3<I: Iterator>(a: I)
    requires a.obeys_prophetic_iter_laws(), a.will_return_none(), a.decrease() is Some,
       forall|i: int| 0 <= i < a.remaining().len() ==> a.peek(i) == Some(a.remaining()[i]),
       forall|i: int| i >= a.remaining().len() ==> a.peek(i) is None,
{
    for attr in it: a
    {
    }
}
fn c4<I: Iterator>(a: I)
    requires a.obeys_prophetic_iter_laws(), a.will_return_none(), a.decrease() is Some,
{
    let mut a = a;
    loop
        invariant a.obeys_prophetic_iter_laws(), a.will_return_none(), a.decrease() is Some,
        decreases a.decrease()->Some_0,
    {
        match a.next() { None => break, Some(_) => {} }
    }
}
}
