use vstd::prelude::*;
use std::collections::HashMap;
verus! {
broadcast use vstd::std_specs::hash::group_hash_axioms;
fn f(names: &Vec<String>, counts: &Vec<u32>) -> (m: HashMap<String, u32>)
    requires names@.len() == counts@.len(), vstd::std_specs::hash::obeys_key_model::<String>(),
    ensures forall|i: int| 0 <= i < names@.len() ==> m@.contains_key(#[trigger] names@[i]),
{
    let mut m: HashMap<String, u32> = HashMap::new();
    let mut i: usize = 0;
    while i < names.len()
        invariant vstd::std_specs::hash::obeys_key_model::<String>(), 0 <= i <= names@.len(), names@.len() == counts@.len(),
            forall|j: int| 0 <= j < i ==> m@.contains_key(#[trigger] names@[j]),
        decreases names@.len() - i,
    {
        m.insert(names[i].clone(), counts[i]);
        i = i + 1;
    }
    m
}
fn g(m: &HashMap<String, u32>, k: &String) -> (r: bool)
    requires vstd::std_specs::hash::obeys_key_model::<String>(),
    ensures r == m@.contains_key(*k)
{
    m.contains_key(k)
}
}
