use vstd::prelude::*;
use vstd::std_specs::cmp::PartialEqSpec;
verus! {

#[verifier::reject_recursive_types(T)]
#[verifier::external_type_specification]
#[verifier::external_body]
pub struct ExDiscriminant<T>(std::mem::Discriminant<T>);
pub uninterp spec fn discr_of<T>(t: &T) -> int;
pub uninterp spec fn discr_val<T>(d: std::mem::Discriminant<T>) -> int;
pub assume_specification<T> [std::mem::discriminant] (v: &T) -> (d: std::mem::Discriminant<T>)
    ensures discr_val(d) == discr_of(v);
pub assume_specification<T> [<std::mem::Discriminant<T> as PartialEq>::eq] (a: &std::mem::Discriminant<T>, b: &std::mem::Discriminant<T>) -> (r: bool)
    ensures r == (discr_val(*a) == discr_val(*b));

pub enum Necessity<T> {
    Optional(T),
    Mandatory(T),
}

impl<T> Necessity<T> {
    pub open spec fn spec_inner(&self) -> &T {
        match self { Necessity::Optional(t) => t, Necessity::Mandatory(t) => t }
    }
    pub open spec fn val(self) -> T {
        match self { Necessity::Optional(t) => t, Necessity::Mandatory(t) => t }
    }
    pub fn into_inner_t(self) -> (r: T)
        ensures r == self.val()
    {
        match self {
            Necessity::Optional(t) => t,
            Necessity::Mandatory(t) => t,
        }
    }
    pub fn inner_t(&self) -> (r: &T)
        ensures *r == self.val()
    {
        match self {
            Necessity::Optional(t) => t,
            Necessity::Mandatory(t) => t,
        }
    }
}

/// T's PartialEq is mathematical equality
pub open spec fn eq_is_structural<T: PartialEq>() -> bool {
    T::obeys_eq_spec() && forall|a: T, b: T| #[trigger] a.eq_spec(&b) <==> a == b
}

pub open spec fn names<T>(s: Seq<Necessity<T>>) -> Seq<T> { s.map_values(|n: Necessity<T>| n.val()) }
pub open spec fn has<T>(s: Seq<Necessity<T>>, x: T) -> bool { exists|i: int| 0 <= i < s.len() && s[i].val() == x }
pub open spec fn first_idx<T>(s: Seq<Necessity<T>>, x: T) -> int
    decreases s.len()
{
    if s.len() == 0 { 0 } else if s[0].val() == x { 0 } else { 1 + first_idx(s.drop_first(), x) }
}
pub open spec fn merged_item<T>(a: Necessity<T>, other: Seq<Necessity<T>>) -> Necessity<T> {
    let j = first_idx(other, a.val());
    if j < other.len() && a is Mandatory && other[j] is Mandatory { Necessity::Mandatory(a.val()) } else { Necessity::Optional(a.val()) }
}
pub open spec fn merged_first<T>(vec: Seq<Necessity<T>>, other: Seq<Necessity<T>>) -> Seq<Necessity<T>> {
    Seq::new(vec.len(), |i: int| merged_item(vec[i], other))
}
/// items of `other` (prefix of length k processed) not in acc, appended as Optional in original order
pub open spec fn append_new<T>(acc: Seq<Necessity<T>>, other: Seq<Necessity<T>>) -> Seq<Necessity<T>>
    decreases other.len()
{
    if other.len() == 0 { acc }
    else if has(acc, other[0].val()) { append_new(acc, other.drop_first()) }
    else { append_new(acc.push(Necessity::Optional(other[0].val())), other.drop_first()) }
}
pub open spec fn spec_merge<T>(vec: Seq<Necessity<T>>, other: Seq<Necessity<T>>) -> Seq<Necessity<T>> {
    append_new(merged_first(vec, other), other)
}


pub proof fn lemma_first_idx_at<T>(s: Seq<Necessity<T>>, x: T, k: int)
    requires 0 <= k < s.len(), s[k].val() == x, forall|j: int| 0 <= j < k ==> (#[trigger] s[j]).val() != x,
    ensures first_idx(s, x) == k
    decreases s.len()
{
    if k > 0 {
        let t = s.drop_first();
        assert(forall|j: int| 0 <= j < k - 1 ==> (#[trigger] t[j]) == s[j + 1]);
        lemma_first_idx_at(t, x, k - 1);
    }
}
pub proof fn lemma_first_idx_none<T>(s: Seq<Necessity<T>>, x: T)
    requires forall|j: int| 0 <= j < s.len() ==> (#[trigger] s[j]).val() != x,
    ensures first_idx(s, x) >= s.len()
    decreases s.len()
{
    if s.len() > 0 {
        let t = s.drop_first();
        assert(forall|j: int| 0 <= j < t.len() ==> (#[trigger] t[j]) == s[j + 1]);
        lemma_first_idx_none(t, x);
    }
}


pub proof fn lemma_append_new_push<T>(acc: Seq<Necessity<T>>, s: Seq<Necessity<T>>, x: Necessity<T>)
    ensures append_new(acc, s.push(x)) == (if has(append_new(acc, s), x.val()) { append_new(acc, s) } else { append_new(acc, s).push(Necessity::Optional(x.val())) })
    decreases s.len()
{
    if s.len() == 0 {
        assert(s.push(x).drop_first() == Seq::<Necessity<T>>::empty());
        assert(append_new(acc, Seq::<Necessity<T>>::empty()) == acc);
        assert(append_new(acc.push(Necessity::Optional(x.val())), Seq::<Necessity<T>>::empty()) == acc.push(Necessity::Optional(x.val())));
    } else {
        assert(s.push(x).drop_first() == s.drop_first().push(x));
        assert(s.push(x)[0] == s[0]);
        if has(acc, s[0].val()) {
            lemma_append_new_push(acc, s.drop_first(), x);
        } else {
            lemma_append_new_push(acc.push(Necessity::Optional(s[0].val())), s.drop_first(), x);
        }
    }
}

pub fn merge_necessity<T: std::cmp::PartialEq>(
    vec: Vec<Necessity<T>>,
    other: Vec<Necessity<T>>,
) -> (res: Vec<Necessity<T>>)
    requires eq_is_structural::<T>()
    ensures res@ == spec_merge(vec@, other@)
{
    let mut result: Vec<Necessity<T>> = Vec::new();

    for vec_item in it: vec.into_iter()
        invariant
            eq_is_structural::<T>(),
            it.seq() == vec@,
            result@ == merged_first(vec@, other@).take(it.index@ as int),
    {
        let mut found = false;
        let mut optional = true;
        for other_item in it2: other.iter()
            invariant_except_break
                !found,
                optional,
                forall|j: int| 0 <= j < it2.index@ ==> (#[trigger] other@[j]).val() != vec_item.val(),
            invariant
                eq_is_structural::<T>(),
                it2.seq().len() == other@.len(),
                forall|j: int| 0 <= j < other@.len() ==> *(#[trigger] it2.seq()[j]) == other@[j],
            ensures
                found ==> first_idx(other@, vec_item.val()) < other@.len()
                    && (optional <==> !(vec_item is Mandatory && other@[first_idx(other@, vec_item.val())] is Mandatory)),
                !found ==> optional && forall|j: int| 0 <= j < other@.len() ==> (#[trigger] other@[j]).val() != vec_item.val(),
        {
            if other_item.inner_t() == vec_item.inner_t() {
                found = true;
                if let (Necessity::Mandatory(_), Necessity::Mandatory(_)) = (&other_item, &vec_item)
                {
                    optional = false
                }
                proof { lemma_first_idx_at(other@, vec_item.val(), it2.index@ as int); }
                break;
            }
        }
        proof { if !found { lemma_first_idx_none(other@, vec_item.val()); } }
        match found {
            true => match optional {
                true => result.push(Necessity::Optional(vec_item.into_inner_t())),
                false => result.push(Necessity::Mandatory(vec_item.into_inner_t())),
            },
            false => result.push(Necessity::Optional(vec_item.into_inner_t())),
        }
    }

    assert(merged_first(vec@, other@).take(vec@.len() as int) == merged_first(vec@, other@));
    assert(other@.take(0) == Seq::<Necessity<T>>::empty());
    for other_item in it3: other.into_iter().rev()
        invariant
            eq_is_structural::<T>(),
            it3.seq() == other@,
            result@ == append_new(merged_first(vec@, other@), other@.take(it3.index@ as int)),
    {
        let mut found = false;
        for result_item in it4: result.iter()
            invariant_except_break
                !found,
                forall|j: int| 0 <= j < it4.index@ ==> (#[trigger] result@[j]).val() != other_item.val(),
            invariant
                eq_is_structural::<T>(),
                it4.seq().len() == result@.len(),
                forall|j: int| 0 <= j < result@.len() ==> *(#[trigger] it4.seq()[j]) == result@[j],
            ensures
                found <==> has(result@, other_item.val()),
        {
            if other_item.inner_t() == result_item.inner_t() {
                found = true;
                break;
            }
        }
        proof {
            lemma_append_new_push(merged_first(vec@, other@), other@.take(it3.index@ as int), other_item);
            assert(other@.take(it3.index@ as int).push(other_item) == other@.take(it3.index@ as int + 1));
        }
        match found {
            true => (),
            false => result.push(Necessity::Optional(other_item.into_inner_t())),
        }
    }

    assert(other@.take(other@.len() as int) == other@);
    result
}

} // verus!
fn main() {}
