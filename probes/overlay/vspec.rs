// Design probe: verif-owned spec module injected into the scratch copy as `mod vspec;`
#![allow(unused_imports)]
use vstd::prelude::*;
use vstd::std_specs::cmp::PartialEqSpec;
verus! {

// ---------- A1: PartialEq is structural equality ----------
pub open spec fn eq_is_structural<T: PartialEq>() -> bool {
    <T as PartialEqSpec>::obeys_eq_spec()
        && forall|a: T, b: T| #[trigger] PartialEqSpec::eq_spec(&a, &b) <==> a == b
}

// ---------- A2: std::mem::discriminant ----------
#[verifier::reject_recursive_types(T)]
#[verifier::external_type_specification]
#[verifier::external_body]
pub struct ExDiscriminant<T>(std::mem::Discriminant<T>);
pub uninterp spec fn discr_of<T>(t: &T) -> int;
pub uninterp spec fn discr_val<T>(d: std::mem::Discriminant<T>) -> int;
pub assume_specification<T> [std::mem::discriminant] (v: &T) -> (d: std::mem::Discriminant<T>)
    ensures discr_val(d) == discr_of(v);
pub assume_specification<T> [<std::mem::Discriminant<T> as PartialEq>::eq] (a: &std::mem::Discriminant<T>, b: &std::mem::Discriminant<T>) -> (r: bool)
    ensures r == (discr_val(*a) == discr_val(*b));

// ---------- A3: std slice contains ----------
pub assume_specification<T: PartialEq> [<[T]>::contains] (s: &[T], x: &T) -> (r: bool)
    ensures
        <T as PartialEqSpec>::obeys_eq_spec() ==> r == (exists|i: int| 0 <= i < s@.len() && #[trigger] PartialEqSpec::eq_spec(&s@[i], x));


// ---------- A4: String keys ----------
pub open spec fn string_keys_ok() -> bool {
    vstd::std_specs::hash::obeys_key_model::<String>()
}

// ---------- A5: quick_xml boundary (assumed) ----------
#[verifier::external_type_specification] #[verifier::external_body] #[verifier::reject_recursive_types(R)]
pub struct ExReader<R>(quick_xml::reader::Reader<R>);
#[verifier::external_type_specification] #[verifier::external_body]
pub struct ExBytesStart<'a>(quick_xml::events::BytesStart<'a>);
#[verifier::external_type_specification] #[verifier::external_body]
pub struct ExBytesEnd<'a>(quick_xml::events::BytesEnd<'a>);
#[verifier::external_type_specification] #[verifier::external_body]
pub struct ExBytesText<'a>(quick_xml::events::BytesText<'a>);
#[verifier::external_type_specification] #[verifier::external_body]
pub struct ExBytesCData<'a>(quick_xml::events::BytesCData<'a>);
#[verifier::external_type_specification] #[verifier::external_body]
pub struct ExBytesDecl<'a>(quick_xml::events::BytesDecl<'a>);
#[verifier::external_type_specification] #[verifier::external_body]
pub struct ExBytesPI<'a>(quick_xml::events::BytesPI<'a>);
#[verifier::external_type_specification]
pub struct ExEvent<'a>(quick_xml::events::Event<'a>);
#[verifier::external_type_specification] #[verifier::external_body]
pub struct ExQName<'a>(quick_xml::name::QName<'a>);
#[verifier::external_type_specification] #[verifier::external_body]
pub struct ExAttributes<'a>(quick_xml::events::attributes::Attributes<'a>);
#[verifier::external_type_specification]
pub struct ExAttribute<'a>(quick_xml::events::attributes::Attribute<'a>);
#[verifier::external_type_specification] #[verifier::external_body]
pub struct ExAttrError(quick_xml::events::attributes::AttrError);
#[verifier::external_type_specification] #[verifier::external_body]
pub struct ExQxError(quick_xml::Error);
#[verifier::external_type_specification] #[verifier::external_body]
pub struct ExFromUtf8Error(std::string::FromUtf8Error);

/// abstract start tag: name bytes and, per attribute in document order, Some(key bytes) or None (malformed / duplicated)
pub ghost struct Tag { pub name: Seq<u8>, pub attrs: Seq<Option<Seq<u8>>> }
pub ghost enum AbsEv { Start(Tag), Empty(Tag), End, Text(Seq<u8>), CData(Seq<u8>), Comment, Decl, PI, DocType, Eof }
pub ghost enum RdItem { Ev(AbsEv), Err }

pub uninterp spec fn rd_pending<R>(r: quick_xml::reader::Reader<R>) -> Seq<RdItem>;
pub uninterp spec fn rd_pos<R>(r: quick_xml::reader::Reader<R>) -> u64;
pub uninterp spec fn tag_of(e: quick_xml::events::BytesStart<'_>) -> Tag;
pub uninterp spec fn text_bytes(e: quick_xml::events::BytesText<'_>) -> Seq<u8>;
pub uninterp spec fn cdata_bytes(e: quick_xml::events::BytesCData<'_>) -> Seq<u8>;
pub uninterp spec fn bytes_of<T>(t: T) -> Seq<u8>;
pub uninterp spec fn utf8_ok(b: Seq<u8>) -> bool;
pub uninterp spec fn utf8_str(b: Seq<u8>) -> String;
pub uninterp spec fn attrs_pending(a: quick_xml::events::attributes::Attributes<'_>) -> Seq<Option<Seq<u8>>>;

pub open spec fn abs_event(e: quick_xml::events::Event<'_>) -> AbsEv {
    match e {
        quick_xml::events::Event::Start(b) => AbsEv::Start(tag_of(b)),
        quick_xml::events::Event::End(_) => AbsEv::End,
        quick_xml::events::Event::Empty(b) => AbsEv::Empty(tag_of(b)),
        quick_xml::events::Event::Text(t) => AbsEv::Text(text_bytes(t)),
        quick_xml::events::Event::CData(t) => AbsEv::CData(cdata_bytes(t)),
        quick_xml::events::Event::Comment(_) => AbsEv::Comment,
        quick_xml::events::Event::Decl(_) => AbsEv::Decl,
        quick_xml::events::Event::PI(_) => AbsEv::PI,
        quick_xml::events::Event::DocType(_) => AbsEv::DocType,
        quick_xml::events::Event::Eof => AbsEv::Eof,
    }
}
pub open spec fn abs_result(r: std::result::Result<quick_xml::events::Event<'_>, quick_xml::Error>) -> RdItem {
    match r { Ok(e) => RdItem::Ev(abs_event(e)), Err(_) => RdItem::Err }
}

pub assume_specification<'b, R: std::io::BufRead> [quick_xml::reader::Reader::<R>::read_event_into] (r: &mut quick_xml::Reader<R>, buf: &'b mut std::vec::Vec<u8>) -> (res: std::result::Result<quick_xml::events::Event<'b>, quick_xml::Error>)
    ensures
        rd_pending(*old(r)).len() > 0 ==> abs_result(res) == rd_pending(*old(r))[0] && rd_pending(*final(r)) == rd_pending(*old(r)).drop_first(),
        rd_pending(*old(r)).len() == 0 ==> abs_result(res) == RdItem::Ev(AbsEv::Eof) && rd_pending(*final(r)).len() == 0;
pub assume_specification<R> [quick_xml::Reader::<R>::buffer_position] (r: &quick_xml::Reader<R>) -> (p: u64)
    ensures p == rd_pos(*r);
pub assume_specification<'a, 's> [quick_xml::events::BytesStart::<'a>::name] (e: &'s quick_xml::events::BytesStart<'a>) -> (q: quick_xml::name::QName<'s>)
    ensures bytes_of(q) == tag_of(*e).name;
pub assume_specification<'a, 's> [quick_xml::events::BytesStart::<'a>::attributes] (e: &'s quick_xml::events::BytesStart<'a>) -> (a: quick_xml::events::attributes::Attributes<'s>)
    ensures attrs_pending(a) == tag_of(*e).attrs;
pub assume_specification<'a> [<quick_xml::events::attributes::Attributes<'a> as Iterator>::next] (it: &mut quick_xml::events::attributes::Attributes<'a>) -> (r: Option<<quick_xml::events::attributes::Attributes<'a> as std::iter::Iterator>::Item>)
    ensures
        attrs_pending(*old(it)).len() == 0 ==> r is None && attrs_pending(*final(it)).len() == 0,
        attrs_pending(*old(it)).len() > 0 ==> r is Some && attrs_pending(*final(it)) == attrs_pending(*old(it)).drop_first()
            && (match r->Some_0 { Ok(a) => attrs_pending(*old(it))[0] == Some(bytes_of(a.key)), Err(_) => attrs_pending(*old(it))[0] is None });
pub assume_specification<'a> [quick_xml::events::BytesText::<'a>::into_inner] (t: quick_xml::events::BytesText<'a>) -> (c: std::borrow::Cow<'a, [u8]>)
    ensures bytes_of(c) == text_bytes(t);
pub assume_specification<'a> [quick_xml::events::BytesCData::<'a>::into_inner] (t: quick_xml::events::BytesCData<'a>) -> (c: std::borrow::Cow<'a, [u8]>)
    ensures bytes_of(c) == cdata_bytes(t);


// ---------- A6: trusted leaf Element::merge_attr (`mut self` receiver is not supported by Verus) ----------
pub assume_specification<T: std::cmp::PartialEq + std::fmt::Display + std::fmt::Debug> [crate::element::Element::<T>::merge_attr] (e: crate::element::Element<T>, a: Vec<crate::necessity::Necessity<T>>) -> (r: crate::element::Element<T>)
    requires eq_is_structural::<T>(),
    ensures
        r.attributes@ == crate::necessity::spec_merge(e.attributes@, a@),
        r.name == e.name, r.text == e.text, r.standalone == e.standalone, r.count == e.count,
        r.children == e.children, r.position == e.position;


// =====================================================================================
// Ghost schema tree and the functional specification of the parser (layer T1 of DESIGN.md)
// =====================================================================================
use crate::element::Element;
use crate::necessity::{Necessity, spec_merge};

/// ghost schema tree: exact internal order; text *content* erased
pub ghost struct GEl {
    pub name: String, pub text_some: bool, pub standalone: bool, pub count: u32,
    pub attrs: Seq<Necessity<String>>, pub kids: Seq<Necessity<GEl>>, pub position: Option<usize>,
}
pub open spec fn abs_n(n: Necessity<Element<String>>) -> Necessity<GEl>
    decreases n, 0int
{
    match n { Necessity::Optional(e) => Necessity::Optional(abs(e)), Necessity::Mandatory(e) => Necessity::Mandatory(abs(e)) }
}
pub open spec fn abs_kids(s: Seq<Necessity<Element<String>>>) -> Seq<Necessity<GEl>>
    decreases s, 1int
{
    if s.len() == 0 { Seq::empty() } else { abs_kids(s.drop_last()).push(abs_n(s.last())) }
}
pub open spec fn abs(e: Element<String>) -> GEl
    decreases e, 2int
{
    GEl { name: e.name, text_some: e.text is Some, standalone: e.standalone, count: e.count,
          attrs: e.attributes@, kids: abs_kids(e.children@), position: e.position }
}
pub proof fn lemma_abs_kids_index(s: Seq<Necessity<Element<String>>>)
    ensures abs_kids(s).len() == s.len(), forall|i: int| 0 <= i < s.len() ==> (#[trigger] abs_kids(s)[i]) == abs_n(s[i]),
    decreases s.len()
{
    if s.len() > 0 { lemma_abs_kids_index(s.drop_last()); }
}
pub proof fn lemma_abs_kids_push(s: Seq<Necessity<Element<String>>>, x: Necessity<Element<String>>)
    ensures abs_kids(s.push(x)) == abs_kids(s).push(abs_n(x)),
{
    assert(s.push(x).drop_last() == s);
}
pub proof fn lemma_abs_kids_remove(s: Seq<Necessity<Element<String>>>, i: int)
    requires 0 <= i < s.len(),
    ensures abs_kids(s.remove(i)) == abs_kids(s).remove(i),
{
    lemma_abs_kids_index(s); lemma_abs_kids_index(s.remove(i));
    assert(abs_kids(s.remove(i)) =~= abs_kids(s).remove(i));
}
pub proof fn lemma_abs_kids_ext(a: Seq<Necessity<Element<String>>>, b: Seq<Necessity<GEl>>)
    requires a.len() == b.len(), forall|i: int| 0 <= i < a.len() ==> abs_n(#[trigger] a[i]) == b[i],
    ensures abs_kids(a) == b,
{
    lemma_abs_kids_index(a);
    assert(abs_kids(a) =~= b);
}

// ---- list-level ghost operations ----
pub open spec fn g_idx(kids: Seq<Necessity<GEl>>, name: String) -> int decreases kids.len()
{ if kids.len() == 0 { 0 } else if kids[0].val().name == name { 0 } else { 1 + g_idx(kids.drop_first(), name) } }
pub open spec fn g_mand_counts(kids: Seq<Necessity<GEl>>) -> Map<String, u32> decreases kids.len()
{
    if kids.len() == 0 { Map::empty() } else {
        let pre = g_mand_counts(kids.drop_last());
        if kids.last() is Mandatory { pre.insert(kids.last().val().name, kids.last().val().count) } else { pre }
    }
}
pub open spec fn g_demote_rule(c: Necessity<GEl>, snap: Map<String, u32>) -> bool {
    if snap.contains_key(c.val().name) { snap[c.val().name] == c.val().count } else { c is Mandatory }
}
pub open spec fn g_to_optional_names(kids: Seq<Necessity<GEl>>, snap: Map<String, u32>) -> Seq<String> decreases kids.len()
{
    if kids.len() == 0 { Seq::empty() } else {
        let pre = g_to_optional_names(kids.drop_last(), snap);
        if g_demote_rule(kids.last(), snap) { pre.push(kids.last().val().name) } else { pre }
    }
}
pub open spec fn g_demote(kids: Seq<Necessity<GEl>>, name: String) -> Seq<Necessity<GEl>> {
    let i = g_idx(kids, name);
    if i < kids.len() { kids.remove(i).push(Necessity::Optional(kids[i].val())) } else { kids }
}
pub open spec fn g_demote_all_rev(kids: Seq<Necessity<GEl>>, names: Seq<String>) -> Seq<Necessity<GEl>> decreases names.len()
{ if names.len() == 0 { kids } else { g_demote_all_rev(g_demote(kids, names.last()), names.drop_last()) } }
pub open spec fn retag(n: Necessity<GEl>, x: GEl) -> Necessity<GEl> {
    match n { Necessity::Optional(_) => Necessity::Optional(x), Necessity::Mandatory(_) => Necessity::Mandatory(x) }
}

pub proof fn lemma_idx_agree(kids: Seq<Necessity<Element<String>>>, name: String)
    ensures g_idx(abs_kids(kids), name) == crate::element::kid_idx(kids, name), 0 <= crate::element::kid_idx(kids, name) <= kids.len(),
    decreases kids.len()
{
    lemma_abs_kids_index(kids);
    if kids.len() > 0 {
        lemma_abs_kids_index(kids.drop_first());
        assert(abs_kids(kids).drop_first() =~= abs_kids(kids.drop_first()));
        lemma_idx_agree(kids.drop_first(), name);
    }
}

// ---- node-level ghost operations: the algorithm as a function of (tree, event sequence) ----
pub open spec fn g_count_children(s: GEl, n: String) -> (Map<String, u32>, bool) {
    let i = g_idx(s.kids, n);
    if i < s.kids.len() { (g_mand_counts(s.kids[i].val().kids), true) } else { (Map::empty(), false) }
}
pub open spec fn g_tag_opt(s: GEl, n: String, snap: Map<String, u32>) -> GEl {
    let i = g_idx(s.kids, n);
    if i >= s.kids.len() { s } else {
        let x = s.kids[i].val();
        let x2 = GEl { kids: g_demote_all_rev(x.kids, g_to_optional_names(x.kids, snap)), ..x };
        GEl { kids: s.kids.update(i, retag(s.kids[i], x2)), ..s }
    }
}
pub open spec fn decode_attrs(a: Seq<Option<Seq<u8>>>) -> Seq<String> decreases a.len()
{ if a.len() == 0 { Seq::empty() } else { seq![utf8_str(a[0]->Some_0)] + decode_attrs(a.drop_first()) } }
pub open spec fn mand_decode(a: Seq<Option<Seq<u8>>>) -> Seq<Necessity<String>> decreases a.len()
{ if a.len() == 0 { Seq::empty() } else { seq![Necessity::Mandatory(utf8_str(a[0]->Some_0))] + mand_decode(a.drop_first()) } }
pub proof fn lemma_mand_decode(a: Seq<Option<Seq<u8>>>)
    ensures mand_decode(a).len() == a.len(), decode_attrs(a).len() == a.len(),
        forall|i: int| 0 <= i < a.len() ==> (#[trigger] mand_decode(a)[i]) == Necessity::Mandatory(decode_attrs(a)[i]),
    decreases a.len()
{
    if a.len() > 0 {
        lemma_mand_decode(a.drop_first());
        assert forall|i: int| 0 <= i < a.len() implies (#[trigger] mand_decode(a)[i]) == Necessity::Mandatory(decode_attrs(a)[i]) by {
            if i > 0 { assert(mand_decode(a)[i] == mand_decode(a.drop_first())[i - 1]); assert(decode_attrs(a)[i] == decode_attrs(a.drop_first())[i - 1]); }
        }
    }
}
pub open spec fn g_attrs_ok(a: Seq<Option<Seq<u8>>>) -> bool {
    forall|k: int| 0 <= k < a.len() ==> (#[trigger] a[k]) is Some && utf8_ok(a[k]->Some_0)
}
pub open spec fn g_tag_ok(t: Tag) -> bool { utf8_ok(t.name) && g_attrs_ok(t.attrs) }

/// (result tree or None on error, known names afterwards, rest of the stream)
pub open spec fn g_parse_tag(s: GEl, t: Tag, known: Seq<String>, content: Option<Seq<RdItem>>) -> (Option<GEl>, Seq<String>, Seq<RdItem>)
    decreases (match content { Some(p) => p.len(), None => 0 }), 1int
{
    let n = utf8_str(t.name);
    let i = g_idx(s.kids, n);
    let na = mand_decode(t.attrs);
    let base = if i < s.kids.len() {
        let c = s.kids[i].val();
        GEl { attrs: spec_merge(c.attrs, na), standalone: c.standalone && !known.contains(n), count: (c.count + 1) as u32, ..c }
    } else {
        GEl { name: n, text_some: false, standalone: !known.contains(n), count: 1, attrs: na, kids: Seq::empty(), position: None }
    };
    let rest_kids = if i < s.kids.len() { s.kids.remove(i) } else { s.kids };
    let inner: (Option<GEl>, Seq<RdItem>) = match content { Some(p) => g_build(base, p, Seq::empty()), None => (Some(base), Seq::empty()) };
    match inner.0 {
        None => (None, known, inner.1),
        Some(c2) => {
            let known2 = if known.contains(n) { known } else { known.push(n) };
            let c3 = GEl { position: if c2.position is None { Some(rest_kids.len() as usize) } else { c2.position }, ..c2 };
            (Some(GEl { kids: rest_kids.push(Necessity::Mandatory(c3)), ..s }), known2, inner.1)
        }
    }
}
pub open spec fn g_build(s: GEl, p: Seq<RdItem>, known: Seq<String>) -> (Option<GEl>, Seq<RdItem>)
    decreases p.len(), 0int
{
    if p.len() == 0 { (Some(s), p) } else {
        let rest = p.drop_first();
        match p[0] {
            RdItem::Err => (None, rest),
            RdItem::Ev(AbsEv::Eof) => (Some(s), rest),
            RdItem::Ev(AbsEv::End) => (Some(s), rest),
            RdItem::Ev(AbsEv::Comment) => g_build(s, rest, known),
            RdItem::Ev(AbsEv::Decl) => g_build(s, rest, known),
            RdItem::Ev(AbsEv::PI) => g_build(s, rest, known),
            RdItem::Ev(AbsEv::DocType) => g_build(s, rest, known),
            RdItem::Ev(AbsEv::Text(b)) => if utf8_ok(b) { g_build(GEl { text_some: true, ..s }, rest, known) } else { (None, rest) },
            RdItem::Ev(AbsEv::CData(b)) => if utf8_ok(b) { g_build(GEl { text_some: true, ..s }, rest, known) } else { (None, rest) },
            RdItem::Ev(AbsEv::Empty(t)) => if !g_tag_ok(t) { (None, rest) } else {
                let r = g_parse_tag(s, t, known, None);
                match r.0 {
                    None => (None, rest),
                    Some(s1) => g_build(g_tag_opt(s1, utf8_str(t.name), Map::empty()), rest, r.1),
                }
            },
            RdItem::Ev(AbsEv::Start(t)) => if !g_tag_ok(t) { (None, rest) } else {
                let cc = g_count_children(s, utf8_str(t.name));
                let r = g_parse_tag(s, t, known, Some(rest));
                match r.0 {
                    None => (None, r.2),
                    Some(s1) => {
                        let s2 = if cc.1 { g_tag_opt(s1, utf8_str(t.name), cc.0) } else { s1 };
                        if r.2.len() < p.len() { g_build(s2, r.2, r.1) } else { (None, r.2) }
                    },
                }
            },
        }
    }
}


// =====================================================================================
// Layer E (C11): an empty-element tag behaves like a start tag immediately followed by an end tag
// =====================================================================================
pub open spec fn g_uniq(kids: Seq<Necessity<GEl>>) -> bool {
    forall|i: int, j: int| 0 <= i < j < kids.len() ==> (#[trigger] kids[i]).val().name != (#[trigger] kids[j]).val().name
}
/// in a duplicate-free list the snapshot contains exactly the Mandatory children, with their counts
pub proof fn lemma_mand_counts_char(kids: Seq<Necessity<GEl>>)
    requires g_uniq(kids),
    ensures
        forall|k: int| 0 <= k < kids.len() ==> (g_mand_counts(kids).contains_key((#[trigger] kids[k]).val().name) <==> kids[k] is Mandatory),
        forall|k: int| 0 <= k < kids.len() && kids[k] is Mandatory ==> g_mand_counts(kids)[(#[trigger] kids[k]).val().name] == kids[k].val().count,
        forall|nm: String| g_mand_counts(kids).contains_key(nm) ==> exists|k: int| 0 <= k < kids.len() && (#[trigger] kids[k]).val().name == nm,
    decreases kids.len()
{
    if kids.len() > 0 {
        let pre = kids.drop_last();
        assert(g_uniq(pre)) by {
            assert forall|i: int, j: int| 0 <= i < j < pre.len() implies (#[trigger] pre[i]).val().name != (#[trigger] pre[j]).val().name by {
                assert(pre[i] == kids[i] && pre[j] == kids[j]);
            }
        }
        lemma_mand_counts_char(pre);
        let last = kids.last();
        assert forall|k: int| 0 <= k < kids.len() implies
            (g_mand_counts(kids).contains_key((#[trigger] kids[k]).val().name) <==> kids[k] is Mandatory)
            && (kids[k] is Mandatory ==> g_mand_counts(kids)[kids[k].val().name] == kids[k].val().count) by
        {
            if k < kids.len() - 1 {
                assert(pre[k] == kids[k]);
                assert(kids[k].val().name != kids[kids.len() - 1].val().name);
            } else {
                if !(last is Mandatory) {
                    if g_mand_counts(pre).contains_key(last.val().name) {
                        let w = choose|w: int| 0 <= w < pre.len() && (#[trigger] pre[w]).val().name == last.val().name;
                        assert(pre[w] == kids[w]);
                        assert(kids[w].val().name != kids[kids.len() - 1].val().name);
                    }
                }
            }
        }
        assert forall|nm: String| g_mand_counts(kids).contains_key(nm) implies exists|k: int| 0 <= k < kids.len() && (#[trigger] kids[k]).val().name == nm by {
            if last is Mandatory && nm == last.val().name {
                assert(kids[kids.len() - 1].val().name == nm);
            } else {
                let w = choose|w: int| 0 <= w < pre.len() && (#[trigger] pre[w]).val().name == nm;
                assert(pre[w] == kids[w]);
            }
        }
    }
}
/// with the snapshot taken from the same list and no count changed, the snapshot rule demotes exactly what the empty snapshot demotes
pub proof fn lemma_to_optional_same(kids: Seq<Necessity<GEl>>, all: Seq<Necessity<GEl>>)
    requires
        g_uniq(all),
        kids.len() <= all.len(),
        forall|k: int| 0 <= k < kids.len() ==> (#[trigger] kids[k]) == all[k],
    ensures g_to_optional_names(kids, g_mand_counts(all)) == g_to_optional_names(kids, Map::empty()),
    decreases kids.len()
{
    if kids.len() > 0 {
        let pre = kids.drop_last();
        assert forall|k: int| 0 <= k < pre.len() implies (#[trigger] pre[k]) == all[k] by { assert(pre[k] == kids[k]); }
        lemma_to_optional_same(pre, all);
        lemma_mand_counts_char(all);
        let k = kids.len() - 1;
        assert(kids.last() == all[k]);
    }
}

} // verus!
