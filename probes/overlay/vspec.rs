// Design probe: verif-owned spec module injected into the scratch copy as `mod vspec;`
#![allow(unused_imports)]
use vstd::prelude::*;
use vstd::std_specs::cmp::PartialEqSpec;
verus! {

// ---------- A1: PartialEq is structural equality ----------
pub open spec fn eq_is_structural<T: PartialEq>() -> bool {
    <T as PartialEqSpec>::obeys_eq_spec()
        && forall|a: T, b: T| #[trigger] PartialEqSpec::eq_spec(&a, &b) <==> a == b
}

// ---------- A2: std::mem::discriminant ----------
#[verifier::reject_recursive_types(T)]
#[verifier::external_type_specification]
#[verifier::external_body]
pub struct ExDiscriminant<T>(std::mem::Discriminant<T>);
pub uninterp spec fn discr_of<T>(t: &T) -> int;
pub uninterp spec fn discr_val<T>(d: std::mem::Discriminant<T>) -> int;
pub assume_specification<T> [std::mem::discriminant] (v: &T) -> (d: std::mem::Discriminant<T>)
    ensures discr_val(d) == discr_of(v);
pub assume_specification<T> [<std::mem::Discriminant<T> as PartialEq>::eq] (a: &std::mem::Discriminant<T>, b: &std::mem::Discriminant<T>) -> (r: bool)
    ensures r == (discr_val(*a) == discr_val(*b));

// ---------- A3: std slice contains ----------
pub assume_specification<T: PartialEq> [<[T]>::contains] (s: &[T], x: &T) -> (r: bool)
    ensures
        <T as PartialEqSpec>::obeys_eq_spec() ==> r == (exists|i: int| 0 <= i < s@.len() && #[trigger] PartialEqSpec::eq_spec(&s@[i], x));

} // verus!
