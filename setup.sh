#!/bin/bash
# setup_cmd of MANIFEST.json: build (offline) the dependency rlibs that Verus links
# the real crate against.  Idempotent; keyed by hash(Cargo.lock of /repo, toolchain).
# The checks call this themselves when the cache is missing or stale.
set -euo pipefail
HERE="$(cd "$(dirname "$0")" && pwd)"
REPO="${VERIF_REPO:-/repo}"
TC="1.98.1-x86_64-unknown-linux-gnu"
CACHE="$HERE/.cache/deps"
export CARGO_NET_OFFLINE=true
key="$( (cat "$REPO/Cargo.lock" 2>/dev/null; echo "$TC"; cat "$HERE/fw/depcrate/Cargo.toml") | sha256sum | cut -c1-16)"
if [ -f "$CACHE/.key" ] && [ "$(cat "$CACHE/.key")" = "$key" ] && ls "$CACHE"/target/debug/deps/libquick_xml-*.rlib >/dev/null 2>&1; then
  echo "setup: dependency cache up to date ($key)"
  exit 0
fi
rm -rf "$CACHE"
mkdir -p "$CACHE/src"
cp "$HERE/fw/depcrate/Cargo.toml" "$CACHE/Cargo.toml"
cp "$HERE/fw/depcrate/src/lib.rs" "$CACHE/src/lib.rs"
# pin the same dependency versions as the repository
[ -f "$REPO/Cargo.lock" ] && cp "$REPO/Cargo.lock" "$CACHE/Cargo.lock"
( cd "$CACHE" && cargo "+$TC" build --offline 2>&1 | tail -3 )
ls "$CACHE"/target/debug/deps/libquick_xml-*.rlib >/dev/null
echo "$key" > "$CACHE/.key"
echo "setup: dependency rlibs built ($key)"
