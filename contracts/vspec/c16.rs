//! C16 (tree half) for ALL operation sequences: the public construction operations as spec functions on the children
//! list (exactly the expressions in the postconditions of add_unique_child / set_child_optional / remove_child), and the
//! induction over operation sequences that the per-operation contracts leave to a meta-argument.
#![allow(unused_imports)]
use vstd::prelude::*;
use crate::element::Element;
use crate::necessity::Necessity;
use super::*;
verus! {

/// one public operation on the children of a node (merge_attr, set_multiple, set text do not touch the children)
pub ghost enum TreeOp<T> {
    Add(Element<T>),
    MarkOptional(T),
    Remove(T),
    Other,
}
/// the children list after the operation - the expressions of the exec postconditions
pub open spec fn apply_op<T>(kids: Seq<Necessity<Element<T>>>, op: TreeOp<T>) -> Seq<Necessity<Element<T>>> {
    match op {
        TreeOp::Add(child) => if kid_idx(kids, child.name) < kids.len() { kids } else {
            kids.push(Necessity::Mandatory(Element { position: if child.position is None { Some(kids.len() as usize) } else { child.position }, ..child }))
        },
        TreeOp::MarkOptional(name) => { let i = kid_idx(kids, name); if i < kids.len() { kids.remove(i).push(Necessity::Optional(kids[i].val())) } else { kids } },
        TreeOp::Remove(name) => { let i = kid_idx(kids, name); if i < kids.len() { kids.remove(i) } else { kids } },
        TreeOp::Other => kids,
    }
}
pub open spec fn apply_ops<T>(kids: Seq<Necessity<Element<T>>>, ops: Seq<TreeOp<T>>) -> Seq<Necessity<Element<T>>>
    decreases ops.len()
{
    if ops.len() == 0 { kids } else { apply_ops(apply_op(kids, ops[0]), ops.drop_first()) }
}
pub open spec fn has_name<T>(kids: Seq<Necessity<Element<T>>>, name: T) -> bool { kid_idx(kids, name) < kids.len() }

/// every single operation keeps child names unique; adding a present name changes nothing; marking optional keeps the
/// child (as a value, i.e. its whole subtree) and only moves / retags it; removal removes exactly the named child
pub proof fn lemma_op_preserves_uniq<T>(kids: Seq<Necessity<Element<T>>>, op: TreeOp<T>)
    requires uniq_kids(kids),
    ensures
        uniq_kids(apply_op(kids, op)),
        forall|c: Element<T>| op == TreeOp::Add(c) && has_name(kids, c.name) ==> apply_op(kids, op) == kids,
        forall|nm: T| op == TreeOp::MarkOptional(nm) && has_name(kids, nm) ==> apply_op(kids, op).last() == Necessity::Optional(kids[kid_idx(kids, nm)].val()),
        forall|nm: T| op == TreeOp::<T>::Remove(nm) ==> !has_name(apply_op(kids, op), nm),
{
    match op {
        TreeOp::Add(child) => {
            lemma_kid_idx(kids, child.name);
            if kid_idx(kids, child.name) >= kids.len() {
                let k2 = apply_op(kids, op);
                assert forall|a: int, b: int| 0 <= a < b < k2.len() implies (#[trigger] k2[a]).val().name != (#[trigger] k2[b]).val().name by {
                    if b < kids.len() { assert(k2[a] == kids[a] && k2[b] == kids[b]); } else { assert(k2[a] == kids[a]); assert(k2[b].val().name == child.name); }
                }
            }
        },
        TreeOp::MarkOptional(name) => {
            lemma_kid_idx(kids, name);
            let i = kid_idx(kids, name);
            if i < kids.len() {
                let r = kids.remove(i);
                let k2 = r.push(Necessity::Optional(kids[i].val()));
                assert(forall|j: int| 0 <= j < r.len() ==> (#[trigger] r[j]) == (if j < i { kids[j] } else { kids[j + 1] }));
                assert forall|a: int, b: int| 0 <= a < b < k2.len() implies (#[trigger] k2[a]).val().name != (#[trigger] k2[b]).val().name by {
                    let ka = if a < i { a } else { a + 1 };
                    if b < r.len() {
                        let kb = if b < i { b } else { b + 1 };
                        assert(k2[a] == kids[ka] && k2[b] == kids[kb]);
                        assert(kids[ka].val().name != kids[kb].val().name);
                    } else {
                        assert(k2[a] == kids[ka] && k2[b].val() == kids[i].val());
                        if ka < i { assert(kids[ka].val().name != kids[i].val().name); } else { assert(kids[i].val().name != kids[ka].val().name); }
                    }
                }
            }
        },
        TreeOp::Remove(name) => {
            lemma_kid_idx(kids, name);
            let i = kid_idx(kids, name);
            if i < kids.len() {
                let r = kids.remove(i);
                assert(forall|j: int| 0 <= j < r.len() ==> (#[trigger] r[j]) == (if j < i { kids[j] } else { kids[j + 1] }));
                assert forall|a: int, b: int| 0 <= a < b < r.len() implies (#[trigger] r[a]).val().name != (#[trigger] r[b]).val().name by {
                    let ka = if a < i { a } else { a + 1 };
                    let kb = if b < i { b } else { b + 1 };
                    assert(r[a] == kids[ka] && r[b] == kids[kb]);
                    assert(kids[ka].val().name != kids[kb].val().name);
                }
                lemma_kid_idx(r, name);
                if kid_idx(r, name) < r.len() {
                    let k = kid_idx(r, name);
                    let kk = if k < i { k } else { k + 1 };
                    assert(r[k] == kids[kk]);
                    assert(kids[kk].val().name == name && kids[i].val().name == name && kk != i);
                    if kk < i { assert(kids[kk].val().name != kids[i].val().name); } else { assert(kids[i].val().name != kids[kk].val().name); }
                }
            }
        },
        TreeOp::Other => {},
    }
}
/// marking optional, read as a map operation: only the named entry changes, and only its tag
pub proof fn lemma_mark_optional_map<T>(kids: Seq<Necessity<Element<T>>>, name: T)
    requires uniq_kids(kids),
    ensures marked_optional_map(kids, apply_op(kids, TreeOp::MarkOptional(name)), name),
{
    lemma_kid_idx(kids, name);
    let i = kid_idx(kids, name);
    let new = apply_op(kids, TreeOp::MarkOptional(name));
    if i < kids.len() {
        let r = kids.remove(i);
        assert(forall|j: int| 0 <= j < r.len() ==> (#[trigger] r[j]) == (if j < i { kids[j] } else { kids[j + 1] }));
        assert(new == r.push(Necessity::Optional(kids[i].val())));
        assert forall|n: T| #[trigger] entry(new, n) == (if n == name {
                match entry(kids, n) { Some(k) => Some(Necessity::Optional(k.val())), None => None }
            } else { entry(kids, n) }) by {
            lemma_kid_idx(kids, n);
            let j = kid_idx(kids, n);
            if n == name {
                assert forall|t: int| 0 <= t < r.len() implies (#[trigger] new[t]).val().name != name by {
                    let kt = if t < i { t } else { t + 1 };
                    assert(new[t] == kids[kt]);
                    if kt < i { assert(kids[kt].val().name != kids[i].val().name); } else { assert(kids[i].val().name != kids[kt].val().name); }
                }
                assert(new[r.len() as int].val().name == name);
                lemma_kid_idx_is(new, name, r.len() as int);
            } else if j >= kids.len() {
                assert forall|t: int| 0 <= t < new.len() implies (#[trigger] new[t]).val().name != n by {
                    if t < r.len() { let kt = if t < i { t } else { t + 1 }; assert(new[t] == kids[kt]); }
                }
                lemma_kid_idx_is(new, n, new.len() as int);
            } else {
                assert(j != i);
                let nj = if j < i { j } else { j - 1 };
                assert(new[nj] == kids[j]);
                assert forall|t: int| 0 <= t < nj implies (#[trigger] new[t]).val().name != n by {
                    let kt = if t < i { t } else { t + 1 };
                    assert(new[t] == kids[kt]);
                }
                lemma_kid_idx_is(new, n, nj);
            }
        }
    }
}
/// removal, read as a map operation: the named entry disappears, every other entry is untouched (order not constrained)
pub open spec fn removed_map<T>(old: Seq<Necessity<Element<T>>>, new: Seq<Necessity<Element<T>>>, name: T) -> bool {
    forall|n: T| #[trigger] entry(new, n) == (if n == name { None } else { entry(old, n) })
}
pub proof fn lemma_remove_map<T>(kids: Seq<Necessity<Element<T>>>, name: T)
    requires uniq_kids(kids),
    ensures removed_map(kids, apply_op(kids, TreeOp::Remove(name)), name),
{
    lemma_kid_idx(kids, name);
    let i = kid_idx(kids, name);
    let new = apply_op(kids, TreeOp::Remove(name));
    if i < kids.len() {
        let r = kids.remove(i);
        assert(forall|j: int| 0 <= j < r.len() ==> (#[trigger] r[j]) == (if j < i { kids[j] } else { kids[j + 1] }));
        assert(new == r);
        assert forall|n: T| #[trigger] entry(new, n) == (if n == name { None } else { entry(kids, n) }) by {
            lemma_kid_idx(kids, n);
            let j = kid_idx(kids, n);
            if n == name {
                assert forall|t: int| 0 <= t < new.len() implies (#[trigger] new[t]).val().name != name by {
                    let kt = if t < i { t } else { t + 1 };
                    assert(new[t] == kids[kt]);
                    if kt < i { assert(kids[kt].val().name != kids[i].val().name); } else { assert(kids[i].val().name != kids[kt].val().name); }
                }
                lemma_kid_idx_is(new, name, new.len() as int);
            } else if j >= kids.len() {
                assert forall|t: int| 0 <= t < new.len() implies (#[trigger] new[t]).val().name != n by {
                    let kt = if t < i { t } else { t + 1 }; assert(new[t] == kids[kt]);
                }
                lemma_kid_idx_is(new, n, new.len() as int);
            } else {
                assert(j != i);
                let nj = if j < i { j } else { j - 1 };
                assert(new[nj] == kids[j]);
                assert forall|t: int| 0 <= t < nj implies (#[trigger] new[t]).val().name != n by {
                    let kt = if t < i { t } else { t + 1 };
                    assert(new[t] == kids[kt]);
                }
                lemma_kid_idx_is(new, n, nj);
            }
        }
    } else {
        assert(new == kids);
    }
}
/// adding, read as a map operation: `x` becomes the entry of its name, every other entry is untouched (order not constrained)
pub open spec fn added_map<T>(old: Seq<Necessity<Element<T>>>, new: Seq<Necessity<Element<T>>>, x: Necessity<Element<T>>) -> bool {
    &&& new.len() == old.len() + 1
    &&& entry(new, x.val().name) == Some(x)
    &&& forall|n: T| n != x.val().name ==> #[trigger] entry(new, n) == entry(old, n)
}
/// inserting an entry with a NEW name at ANY index (appending = the last index) is that map operation and keeps names unique
pub proof fn lemma_insert_map<T>(old: Seq<Necessity<Element<T>>>, idx: int, x: Necessity<Element<T>>)
    requires
        0 <= idx <= old.len(),
        kid_idx(old, x.val().name) >= old.len(),
    ensures
        added_map(old, old.insert(idx, x), x),
        uniq_kids(old) ==> uniq_kids(old.insert(idx, x)),
        forall|t: int| 0 <= t < old.len() + 1 ==> (#[trigger] old.insert(idx, x)[t]) == (if t < idx { old[t] } else if t == idx { x } else { old[t - 1] }),
{
    let name = x.val().name;
    let new = old.insert(idx, x);
    lemma_kid_idx(old, name);
    assert(forall|t: int| 0 <= t < new.len() ==> (#[trigger] new[t]) == (if t < idx { old[t] } else if t == idx { x } else { old[t - 1] }));
    assert forall|t: int| 0 <= t < idx implies (#[trigger] new[t]).val().name != name by { assert(new[t] == old[t]); }
    lemma_kid_idx_is(new, name, idx);
    assert forall|n: T| n != name implies #[trigger] entry(new, n) == entry(old, n) by {
        lemma_kid_idx(old, n);
        let j = kid_idx(old, n);
        if j >= old.len() {
            assert forall|t: int| 0 <= t < new.len() implies (#[trigger] new[t]).val().name != n by {
                if t < idx { assert(new[t] == old[t]); } else if t > idx { assert(new[t] == old[t - 1]); }
            }
            lemma_kid_idx_is(new, n, new.len() as int);
        } else {
            let nj = if j < idx { j } else { j + 1 };
            assert(new[nj] == old[j]);
            assert forall|t: int| 0 <= t < nj implies (#[trigger] new[t]).val().name != n by {
                if t < idx { assert(new[t] == old[t]); } else if t > idx { assert(new[t] == old[t - 1]); }
            }
            lemma_kid_idx_is(new, n, nj);
        }
    }
    if uniq_kids(old) {
        assert forall|a: int, b: int| 0 <= a < b < new.len() implies (#[trigger] new[a]).val().name != (#[trigger] new[b]).val().name by {
            let oa = if a < idx { a } else { a - 1 };
            let ob = if b < idx { b } else { b - 1 };
            if a == idx { assert(new[b] == old[ob]); assert(old[ob].val().name != name); }
            else if b == idx { assert(new[a] == old[oa]); assert(old[oa].val().name != name); }
            else { assert(new[a] == old[oa] && new[b] == old[ob]); assert(oa < ob); }
        }
    }
}
/// THEOREM (C16, tree half): child names stay unique under EVERY finite sequence of the public operations
pub proof fn theorem_c16_all_sequences<T>(kids: Seq<Necessity<Element<T>>>, ops: Seq<TreeOp<T>>)
    requires uniq_kids(kids),
    ensures uniq_kids(apply_ops(kids, ops)),
    decreases ops.len()
{
    if ops.len() > 0 {
        lemma_op_preserves_uniq(kids, ops[0]);
        theorem_c16_all_sequences(apply_op(kids, ops[0]), ops.drop_first());
    }
}
/// ... in particular starting from a freshly created element (no children)
pub proof fn corollary_c16_from_new<T>(ops: Seq<TreeOp<T>>)
    ensures uniq_kids(apply_ops(Seq::<Necessity<Element<T>>>::empty(), ops)),
{
    theorem_c16_all_sequences(Seq::<Necessity<Element<T>>>::empty(), ops);
}

} // verus!
