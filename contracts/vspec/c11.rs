//! C11 at the level of the ghost algorithm: the tree g_build produces depends only on the NORMAL FORM of the event
//! stream, in which comments / processing instructions / declarations / DOCTYPE are dropped, CDATA is text, the
//! content of valid text is erased, and an empty-element tag is a start tag followed by an end tag.
//! (Attribute values do not exist in the event model at all.)  Together with T1 (the real parser computes g_build)
//! this is the parser half of C11.  Independent of the repository's code.
#![allow(unused_imports)]
use vstd::prelude::*;
use crate::element::Element;
use crate::necessity::Necessity;
use super::*;
verus! {

pub open spec fn canon_text() -> Seq<u8> { choose|b: Seq<u8>| utf8_ok(b) }

pub open spec fn norm1(x: RdItem) -> Seq<RdItem> {
    match x {
        RdItem::Ev(AbsEv::Comment) => Seq::empty(),
        RdItem::Ev(AbsEv::Decl) => Seq::empty(),
        RdItem::Ev(AbsEv::PI) => Seq::empty(),
        RdItem::Ev(AbsEv::DocType) => Seq::empty(),
        RdItem::Ev(AbsEv::Text(b)) => seq![RdItem::Ev(AbsEv::Text(if utf8_ok(b) { canon_text() } else { b }))],
        RdItem::Ev(AbsEv::CData(b)) => seq![RdItem::Ev(AbsEv::Text(if utf8_ok(b) { canon_text() } else { b }))],
        RdItem::Ev(AbsEv::Empty(t)) => seq![RdItem::Ev(AbsEv::Start(t)), RdItem::Ev(AbsEv::End)],
        _ => seq![x],
    }
}
pub open spec fn norm(p: Seq<RdItem>) -> Seq<RdItem>
    decreases p.len()
{
    if p.len() == 0 { Seq::empty() } else { norm1(p[0]) + norm(p.drop_first()) }
}

/// THEOREM (C11, parser half): on a well-formed tree, a stream and its normal form produce the same tree
/// (same verdict), and what is left of the stream afterwards has the normal form of what the normal form leaves.
pub proof fn theorem_norm(s: GEl, p: Seq<RdItem>, known: Seq<String>)
    requires g_wf(s),
    ensures
        g_build(s, p, known).0 == g_build(s, norm(p), known).0,
        g_build(s, p, known).0 is Some ==> norm(g_build(s, p, known).1) == g_build(s, norm(p), known).1,
    decreases p.len()
{
    if p.len() == 0 {
        assert(norm(p) =~= Seq::<RdItem>::empty());
    } else {
        let rest = p.drop_first();
        let np = norm(p);
        let nrest = norm(rest);
        assert(np == norm1(p[0]) + nrest);
        match p[0] {
            RdItem::Ev(AbsEv::Comment) | RdItem::Ev(AbsEv::Decl) | RdItem::Ev(AbsEv::PI) | RdItem::Ev(AbsEv::DocType) => {
                assert(np =~= nrest);
                theorem_norm(s, rest, known);
            },
            RdItem::Ev(AbsEv::Text(b)) | RdItem::Ev(AbsEv::CData(b)) => {
                assert(np[0] == RdItem::Ev(AbsEv::Text(if utf8_ok(b) { canon_text() } else { b })));
                assert(np.drop_first() =~= nrest);
                if utf8_ok(b) {
                    assert(utf8_ok(canon_text()));
                    let s1 = GEl { text_some: true, ..s };
                    assert(g_wf(s1));
                    theorem_norm(s1, rest, known);
                }
            },
            RdItem::Err => { assert(np[0] == p[0]); },
            RdItem::Ev(AbsEv::Eof) | RdItem::Ev(AbsEv::End) => {
                assert(np[0] == p[0]);
                assert(np.drop_first() =~= nrest);
            },
            RdItem::Ev(AbsEv::Start(t)) => {
                assert(np[0] == p[0]);
                assert(np.drop_first() =~= nrest);
                if g_tag_ok(t) {
                    let n = utf8_str(t.name);
                    let base = g_base(s, t, known);
                    lemma_base_wf(s, t, known);
                    lemma_parse_tag_unfold(s, t, known, Some(rest));
                    lemma_parse_tag_unfold(s, t, known, Some(nrest));
                    theorem_norm(base, rest, Seq::empty());
                    let inner = g_build(base, rest, Seq::empty());
                    let inner_n = g_build(base, nrest, Seq::empty());
                    if inner.0 is Some {
                        let c2 = inner.0->Some_0;
                        lemma_build_wf(base, rest, Seq::empty());
                        lemma_attach_wf(s, n, c2);
                        let s1 = g_attach(s, n, c2);
                        let k2 = g_known2(known, n);
                        let cc = g_count_children(s, n);
                        lemma_tag_opt_wf(s1, n, cc.0);
                        let s2 = if cc.1 { g_tag_opt(s1, n, cc.0) } else { s1 };
                        lemma_build_shrinks(base, rest, Seq::empty());
                        lemma_build_shrinks(base, nrest, Seq::empty());
                        assert(inner.1.len() < p.len());
                        assert(inner_n.1.len() < np.len());
                        assert(g_build(s, p, known) == g_build(s2, inner.1, k2));
                        assert(g_build(s, np, known) == g_build(s2, inner_n.1, k2));
                        theorem_norm(s2, inner.1, k2);
                    }
                }
            },
            RdItem::Ev(AbsEv::Empty(t)) => {
                let q = seq![RdItem::Ev(AbsEv::Start(t)), RdItem::Ev(AbsEv::End)] + nrest;
                assert(np =~= q);
                assert(p =~= seq![RdItem::Ev(AbsEv::Empty(t))] + rest);
                // normal form side: Start,End behaves like Empty (layer E)
                lemma_empty_is_start_end(s, t, nrest, known);
                let pe = seq![RdItem::Ev(AbsEv::Empty(t))] + nrest;
                assert(pe.drop_first() =~= nrest);
                assert(pe[0] == RdItem::Ev(AbsEv::Empty(t)));
                if g_tag_ok(t) {
                    let n = utf8_str(t.name);
                    lemma_parse_tag_wf(s, t, known, None);
                    let r = g_parse_tag(s, t, known, None);
                    if r.0 is Some {
                        lemma_tag_opt_wf(r.0->Some_0, n, Map::empty());
                        let s2 = g_tag_opt(r.0->Some_0, n, Map::empty());
                        assert(g_build(s, p, known) == g_build(s2, rest, r.1));
                        assert(g_build(s, pe, known) == g_build(s2, nrest, r.1));
                        theorem_norm(s2, rest, r.1);
                    }
                }
            },
        }
    }
}

/// COROLLARY: two event streams with the same normal form give the same tree and the same verdict
pub proof fn corollary_same_norm(s: GEl, p: Seq<RdItem>, q: Seq<RdItem>, known: Seq<String>)
    requires g_wf(s), norm(p) == norm(q),
    ensures g_build(s, p, known).0 == g_build(s, q, known).0,
{
    theorem_norm(s, p, known);
    theorem_norm(s, q, known);
}

/// the two public entry points, as spec functions of the event stream, depend only on its normal form
pub proof fn corollary_c11_entry_points(nm: String, prev: GEl, p: Seq<RdItem>, q: Seq<RdItem>)
    requires norm(p) == norm(q), g_wf(prev),
    ensures
        g_first_child(g_root(nm), p) == g_first_child(g_root(nm), q),
        g_first_child(g_wrap(nm, prev), p) == g_first_child(g_wrap(nm, prev), q),
{
    assert(g_wf(g_root(nm)));
    corollary_same_norm(g_root(nm), p, q, Seq::empty());
    let w = g_wrap(nm, prev);
    assert(g_wf(w)) by {
        assert(w.kids.len() == 1);
        assert(g_wf(w.kids[0].val()));
    }
    corollary_same_norm(w, p, q, Seq::empty());
}

} // verus!
