//! Spec-level theorems about the ghost algorithm g_build / g_parse_tag (independent of the repository's code):
//! stream consumption, well-formedness, and layer E (`<x/>` behaves like `<x></x>`).
#![allow(unused_imports)]
use vstd::prelude::*;
use crate::element::Element;
use crate::necessity::Necessity;
use super::*;
verus! {

// ---------------------------------------------------------------- stream consumption
/// g_build consumes at least one item of a non-empty stream, g_parse_tag never lengthens the content stream
pub proof fn lemma_build_shrinks(s: GEl, p: Seq<RdItem>, known: Seq<String>)
    ensures
        g_build(s, p, known).1.len() <= p.len(),
        p.len() > 0 ==> g_build(s, p, known).1.len() < p.len(),
    decreases p.len(), 0int
{
    if p.len() > 0 {
        let rest = p.drop_first();
        match p[0] {
            RdItem::Ev(AbsEv::Comment) | RdItem::Ev(AbsEv::Decl) | RdItem::Ev(AbsEv::PI) | RdItem::Ev(AbsEv::DocType) => { lemma_build_shrinks(s, rest, known); },
            RdItem::Ev(AbsEv::Text(b)) | RdItem::Ev(AbsEv::CData(b)) => { if utf8_ok(b) { lemma_build_shrinks(GEl { text_some: true, ..s }, rest, known); } },
            RdItem::Ev(AbsEv::Empty(t)) => {
                if g_tag_ok(t) {
                    let r = g_parse_tag(s, t, known, None);
                    if r.0 is Some { lemma_build_shrinks(g_tag_opt(r.0->Some_0, utf8_str(t.name), Map::empty()), rest, r.1); }
                }
            },
            RdItem::Ev(AbsEv::Start(t)) => {
                if g_tag_ok(t) {
                    let cc = g_count_children(s, utf8_str(t.name));
                    lemma_parse_tag_shrinks(s, t, known, rest);
                    let r = g_parse_tag(s, t, known, Some(rest));
                    if r.0 is Some {
                        let s2 = if cc.1 { g_tag_opt(r.0->Some_0, utf8_str(t.name), cc.0) } else { r.0->Some_0 };
                        if r.2.len() < p.len() { lemma_build_shrinks(s2, r.2, r.1); }
                    }
                }
            },
            _ => {},
        }
    }
}
pub proof fn lemma_parse_tag_shrinks(s: GEl, t: Tag, known: Seq<String>, content: Seq<RdItem>)
    ensures g_parse_tag(s, t, known, Some(content)).2.len() <= content.len(),
    decreases content.len(), 1int
{
    let n = utf8_str(t.name);
    let i = g_idx(s.kids, n);
    let na = mand_decode(t.attrs);
    let base = if i < s.kids.len() {
        let c = s.kids[i].val();
        GEl { attrs: spec_merge(c.attrs, na), standalone: c.standalone && !known.contains(n), count: sat_inc(c.count), ..c }
    } else {
        GEl { name: n, text_some: false, standalone: !known.contains(n), count: 1, attrs: na, kids: Seq::empty(), position: None }
    };
    lemma_build_shrinks(base, content, Seq::empty());
}

// ---------------------------------------------------------------- well-formedness of ghost trees
/// unique child names at every level (ghost counterpart of Element::wf)
pub open spec fn g_wf(s: GEl) -> bool
    decreases s
{
    &&& g_uniq(s.kids)
    &&& forall|i: int| 0 <= i < s.kids.len() ==> g_wf((#[trigger] s.kids[i]).val())
}
/// the node g_parse_tag parses the content of: the existing child with merged attributes, or a fresh one
pub open spec fn g_base(s: GEl, t: Tag, known: Seq<String>) -> GEl {
    let n = utf8_str(t.name);
    let i = g_idx(s.kids, n);
    let na = mand_decode(t.attrs);
    if i < s.kids.len() {
        let c = s.kids[i].val();
        GEl { attrs: spec_merge(c.attrs, na), standalone: c.standalone && !known.contains(n), count: sat_inc(c.count), ..c }
    } else {
        GEl { name: n, text_some: false, standalone: !known.contains(n), count: 1, attrs: na, kids: Seq::empty(), position: None }
    }
}
pub open spec fn g_rest_kids(s: GEl, n: String) -> Seq<Necessity<GEl>> {
    let i = g_idx(s.kids, n);
    if i < s.kids.len() { s.kids.remove(i) } else { s.kids }
}
pub open spec fn g_known2(known: Seq<String>, n: String) -> Seq<String> { if known.contains(n) { known } else { known.push(n) } }
/// g_parse_tag in one piece, given the result of parsing the content
pub open spec fn g_attach(s: GEl, n: String, c2: GEl) -> GEl {
    let rk = g_rest_kids(s, n);
    GEl { kids: rk.push(Necessity::Mandatory(GEl { position: if c2.position is None { Some(rk.len() as usize) } else { c2.position }, ..c2 })), ..s }
}
pub proof fn lemma_parse_tag_unfold(s: GEl, t: Tag, known: Seq<String>, content: Option<Seq<RdItem>>)
    ensures
        ({
            let n = utf8_str(t.name);
            let inner: (Option<GEl>, Seq<RdItem>) = match content { Some(p) => g_build(g_base(s, t, known), p, Seq::empty()), None => (Some(g_base(s, t, known)), Seq::empty()) };
            g_parse_tag(s, t, known, content) == (match inner.0 {
                None => (None::<GEl>, known, inner.1),
                Some(c2) => (Some(g_attach(s, n, c2)), g_known2(known, n), inner.1),
            })
        }),
{}
pub proof fn lemma_g_idx(kids: Seq<Necessity<GEl>>, name: String)
    ensures
        0 <= g_idx(kids, name) <= kids.len(),
        g_idx(kids, name) < kids.len() ==> kids[g_idx(kids, name)].val().name == name,
        forall|j: int| 0 <= j < g_idx(kids, name) ==> (#[trigger] kids[j]).val().name != name,
    decreases kids.len()
{
    if kids.len() > 0 && kids[0].val().name != name {
        let t = kids.drop_first();
        lemma_g_idx(t, name);
        assert(forall|j: int| 1 <= j < g_idx(kids, name) ==> (#[trigger] kids[j]) == t[j - 1]);
    }
}
/// index of `name` in a list where it occurs exactly at position k
pub proof fn lemma_g_idx_at(kids: Seq<Necessity<GEl>>, name: String, k: int)
    requires 0 <= k < kids.len(), kids[k].val().name == name, forall|j: int| 0 <= j < k ==> (#[trigger] kids[j]).val().name != name,
    ensures g_idx(kids, name) == k,
    decreases kids.len()
{
    if k > 0 {
        let t = kids.drop_first();
        assert(forall|j: int| 0 <= j < k - 1 ==> (#[trigger] t[j]) == kids[j + 1]);
        lemma_g_idx_at(t, name, k - 1);
    }
}
pub proof fn lemma_g_idx_absent(kids: Seq<Necessity<GEl>>, name: String)
    requires forall|j: int| 0 <= j < kids.len() ==> (#[trigger] kids[j]).val().name != name,
    ensures g_idx(kids, name) == kids.len(),
    decreases kids.len()
{
    if kids.len() > 0 {
        let t = kids.drop_first();
        assert(forall|j: int| 0 <= j < t.len() ==> (#[trigger] t[j]) == kids[j + 1]);
        lemma_g_idx_absent(t, name);
    }
}

// ---------------------------------------------------------------- layer E:  <x/>  ==  <x></x>
/// (C11) on a well-formed tree an empty-element tag is processed exactly like a start tag immediately followed by an end tag
pub proof fn lemma_empty_is_start_end(s: GEl, t: Tag, rest: Seq<RdItem>, known: Seq<String>)
    requires g_wf(s),
    ensures
        g_build(s, seq![RdItem::Ev(AbsEv::Empty(t))] + rest, known).0
            == g_build(s, seq![RdItem::Ev(AbsEv::Start(t)), RdItem::Ev(AbsEv::End)] + rest, known).0,
        g_tag_ok(t) ==> g_build(s, seq![RdItem::Ev(AbsEv::Empty(t))] + rest, known)
            == g_build(s, seq![RdItem::Ev(AbsEv::Start(t)), RdItem::Ev(AbsEv::End)] + rest, known),
{
    let pe = seq![RdItem::Ev(AbsEv::Empty(t))] + rest;
    let ps = seq![RdItem::Ev(AbsEv::Start(t)), RdItem::Ev(AbsEv::End)] + rest;
    assert(pe.drop_first() =~= rest);
    let inner_stream = seq![RdItem::Ev(AbsEv::End)] + rest;
    assert(ps.drop_first() =~= inner_stream);
    assert(inner_stream.drop_first() =~= rest);
    if g_tag_ok(t) {
        let n = utf8_str(t.name);
        let base = g_base(s, t, known);
        lemma_parse_tag_unfold(s, t, known, None);
        lemma_parse_tag_unfold(s, t, known, Some(inner_stream));
        // the content `End :: rest` returns the base node at once
        assert(g_build(base, inner_stream, Seq::empty()) == (Some(base), rest));
        let s1 = g_attach(s, n, base);
        let k2 = g_known2(known, n);
        assert(g_parse_tag(s, t, known, None) == (Some(s1), k2, Seq::<RdItem>::empty()));
        assert(g_parse_tag(s, t, known, Some(inner_stream)) == (Some(s1), k2, rest));
        let cc = g_count_children(s, n);
        let i = g_idx(s.kids, n);
        lemma_g_idx(s.kids, n);
        // where the (re-)added child sits in s1 and what its children are
        let rk = g_rest_kids(s, n);
        let pushed = GEl { position: if base.position is None { Some(rk.len() as usize) } else { base.position }, ..base };
        assert(s1.kids == rk.push(Necessity::Mandatory(pushed)));
        assert forall|j: int| 0 <= j < rk.len() implies (#[trigger] s1.kids[j]).val().name != n by {
            if i < s.kids.len() {
                assert(rk[j] == (if j < i { s.kids[j] } else { s.kids[j + 1] }));
                if j >= i { assert(s.kids[i].val().name != s.kids[j + 1].val().name); }
            }
        }
        lemma_g_idx_at(s1.kids, n, rk.len() as int);
        let i1 = g_idx(s1.kids, n);
        assert(i1 == rk.len() && s1.kids[i1].val() == pushed);
        if !cc.1 {
            // new element: it has no children, demoting nothing leaves s1 unchanged
            assert(pushed.kids =~= Seq::<Necessity<GEl>>::empty());
            assert(g_to_optional_names(pushed.kids, Map::<String, u32>::empty()) =~= Seq::<String>::empty());
            let x2 = GEl { kids: g_demote_all_rev(pushed.kids, g_to_optional_names(pushed.kids, Map::<String, u32>::empty())), ..pushed };
            assert(x2 == pushed);
            assert(s1.kids.update(i1, retag(s1.kids[i1], x2)) =~= s1.kids);
            assert(g_tag_opt(s1, n, Map::empty()) == s1);
        } else {
            // known element: the snapshot is taken from the very children list it is compared with
            let c = s.kids[i].val();
            assert(pushed.kids == c.kids);
            assert(g_wf(s.kids[i].val()));
            lemma_to_optional_same(c.kids, c.kids);
            assert(cc.0 == g_mand_counts(c.kids));
            assert(g_tag_opt(s1, n, cc.0) == g_tag_opt(s1, n, Map::empty()));
        }
        let s2 = if cc.1 { g_tag_opt(s1, n, cc.0) } else { s1 };
        assert(s2 == g_tag_opt(s1, n, Map::empty()));
        assert(pe[0] == RdItem::Ev(AbsEv::Empty(t)));
        assert(ps[0] == RdItem::Ev(AbsEv::Start(t)));
        assert(g_build(s, pe, known) == g_build(g_tag_opt(s1, n, Map::empty()), rest, k2));
        assert(rest.len() < ps.len());
        assert(g_build(s, ps, known) == g_build(s2, rest, k2));
    } else {
        assert(pe[0] == RdItem::Ev(AbsEv::Empty(t)));
        assert(ps[0] == RdItem::Ev(AbsEv::Start(t)));
    }
}

// ---------------------------------------------------------------- g_wf is preserved by every step of the ghost algorithm
pub proof fn lemma_abs_wf(e: Element<String>)
    requires e.wf(),
    ensures g_wf(abs(e)),
    decreases e
{
    lemma_abs_kids_index(e.children@);
    assert forall|i: int| 0 <= i < abs(e).kids.len() implies g_wf((#[trigger] abs(e).kids[i]).val()) by {
        assert(abs(e).kids[i] == abs_n(e.children@[i]));
        assert(e.children@[i].val().wf());
        lemma_abs_wf(e.children@[i].val());
        assert(abs_n(e.children@[i]).val() == abs(e.children@[i].val()));
    }
    assert(g_uniq(abs(e).kids)) by {
        assert forall|i: int, j: int| 0 <= i < j < abs(e).kids.len() implies (#[trigger] abs(e).kids[i]).val().name != (#[trigger] abs(e).kids[j]).val().name by {
            assert(abs(e).kids[i] == abs_n(e.children@[i]) && abs(e).kids[j] == abs_n(e.children@[j]));
            assert(abs_n(e.children@[i]).val().name == e.children@[i].val().name);
            assert(abs_n(e.children@[j]).val().name == e.children@[j].val().name);
        }
    }
}
pub open spec fn g_all_wf(kids: Seq<Necessity<GEl>>) -> bool {
    g_uniq(kids) && forall|i: int| 0 <= i < kids.len() ==> g_wf((#[trigger] kids[i]).val())
}
pub proof fn lemma_demote_wf(kids: Seq<Necessity<GEl>>, name: String)
    requires g_all_wf(kids),
    ensures g_all_wf(g_demote(kids, name)), g_demote(kids, name).len() == kids.len(),
{
    let i = g_idx(kids, name);
    lemma_g_idx(kids, name);
    if i < kids.len() {
        let r = kids.remove(i);
        let d = r.push(Necessity::Optional(kids[i].val()));
        assert(forall|j: int| 0 <= j < r.len() ==> (#[trigger] r[j]) == (if j < i { kids[j] } else { kids[j + 1] }));
        assert forall|a: int, b: int| 0 <= a < b < d.len() implies (#[trigger] d[a]).val().name != (#[trigger] d[b]).val().name by {
            let ka = if a < i { a } else { a + 1 };
            if b < r.len() {
                let kb = if b < i { b } else { b + 1 };
                assert(d[a] == kids[ka] && d[b] == kids[kb]);
                assert(kids[ka].val().name != kids[kb].val().name);
            } else {
                assert(d[a] == kids[ka] && d[b].val() == kids[i].val());
                if ka < i { assert(kids[ka].val().name != kids[i].val().name); } else { assert(kids[i].val().name != kids[ka].val().name); }
            }
        }
        assert forall|a: int| 0 <= a < d.len() implies g_wf((#[trigger] d[a]).val()) by {
            if a < r.len() { let ka = if a < i { a } else { a + 1 }; assert(d[a] == kids[ka]); } else { assert(d[a].val() == kids[i].val()); }
        }
    }
}
pub proof fn lemma_demote_all_wf(kids: Seq<Necessity<GEl>>, names: Seq<String>)
    requires g_all_wf(kids),
    ensures g_all_wf(g_demote_all_rev(kids, names)), g_demote_all_rev(kids, names).len() == kids.len(),
    decreases names.len()
{
    if names.len() > 0 {
        lemma_demote_wf(kids, names.last());
        lemma_demote_all_wf(g_demote(kids, names.last()), names.drop_last());
    }
}
pub proof fn lemma_tag_opt_wf(s: GEl, n: String, snap: Map<String, u32>)
    requires g_wf(s),
    ensures g_wf(g_tag_opt(s, n, snap)), g_tag_opt(s, n, snap).name == s.name,
{
    let i = g_idx(s.kids, n);
    lemma_g_idx(s.kids, n);
    if i < s.kids.len() {
        let x = s.kids[i].val();
        assert(g_wf(x));
        lemma_demote_all_wf(x.kids, g_to_optional_names(x.kids, snap));
        let x2 = GEl { kids: g_demote_all_rev(x.kids, g_to_optional_names(x.kids, snap)), ..x };
        assert(g_wf(x2));
        let k2 = s.kids.update(i, retag(s.kids[i], x2));
        assert(retag(s.kids[i], x2).val() == x2);
        assert forall|a: int| 0 <= a < k2.len() implies g_wf((#[trigger] k2[a]).val()) && k2[a].val().name == s.kids[a].val().name by {
            if a != i { assert(k2[a] == s.kids[a]); }
        }
        assert(g_uniq(k2)) by {
            assert forall|a: int, b: int| 0 <= a < b < k2.len() implies (#[trigger] k2[a]).val().name != (#[trigger] k2[b]).val().name by {
                assert(k2[a].val().name == s.kids[a].val().name && k2[b].val().name == s.kids[b].val().name);
            }
        }
    }
}
pub proof fn lemma_attach_wf(s: GEl, n: String, c2: GEl)
    requires g_wf(s), g_wf(c2), c2.name == n,
    ensures g_wf(g_attach(s, n, c2)), g_attach(s, n, c2).name == s.name,
{
    let i = g_idx(s.kids, n);
    lemma_g_idx(s.kids, n);
    let rk = g_rest_kids(s, n);
    let pushed = GEl { position: if c2.position is None { Some(rk.len() as usize) } else { c2.position }, ..c2 };
    assert(g_wf(pushed));
    let k2 = rk.push(Necessity::Mandatory(pushed));
    if i < s.kids.len() {
        assert(forall|j: int| 0 <= j < rk.len() ==> (#[trigger] rk[j]) == (if j < i { s.kids[j] } else { s.kids[j + 1] }));
    }
    assert forall|a: int| 0 <= a < rk.len() implies (#[trigger] rk[a]).val().name != n && g_wf(rk[a].val()) by {
        if i < s.kids.len() {
            let ka = if a < i { a } else { a + 1 };
            assert(rk[a] == s.kids[ka]);
            if ka < i { assert(s.kids[ka].val().name != s.kids[i].val().name); } else { assert(s.kids[i].val().name != s.kids[ka].val().name); }
        } else {
            assert(rk[a] == s.kids[a]);
        }
    }
    assert forall|a: int, b: int| 0 <= a < b < k2.len() implies (#[trigger] k2[a]).val().name != (#[trigger] k2[b]).val().name by {
        if b < rk.len() {
            assert(k2[a] == rk[a] && k2[b] == rk[b]);
            if i < s.kids.len() {
                let ka = if a < i { a } else { a + 1 };
                let kb = if b < i { b } else { b + 1 };
                assert(rk[a] == s.kids[ka] && rk[b] == s.kids[kb]);
                assert(s.kids[ka].val().name != s.kids[kb].val().name);
            } else {
                assert(rk[a] == s.kids[a] && rk[b] == s.kids[b]);
            }
        } else {
            assert(k2[a] == rk[a]);
            assert(k2[b].val() == pushed);
        }
    }
    assert forall|a: int| 0 <= a < k2.len() implies g_wf((#[trigger] k2[a]).val()) by {
        if a < rk.len() { assert(k2[a] == rk[a]); } else { assert(k2[a].val() == pushed); }
    }
}
pub proof fn lemma_base_wf(s: GEl, t: Tag, known: Seq<String>)
    requires g_wf(s),
    ensures g_wf(g_base(s, t, known)), g_base(s, t, known).name == utf8_str(t.name),
{
    let n = utf8_str(t.name);
    let i = g_idx(s.kids, n);
    lemma_g_idx(s.kids, n);
    if i < s.kids.len() { assert(g_wf(s.kids[i].val())); }
}
/// every tree g_build / g_parse_tag returns for a well-formed tree is well-formed and keeps the node's name
pub proof fn lemma_build_wf(s: GEl, p: Seq<RdItem>, known: Seq<String>)
    requires g_wf(s),
    ensures g_build(s, p, known).0 is Some ==> g_wf(g_build(s, p, known).0->Some_0) && g_build(s, p, known).0->Some_0.name == s.name,
    decreases p.len(), 0int
{
    if p.len() > 0 {
        let rest = p.drop_first();
        match p[0] {
            RdItem::Ev(AbsEv::Comment) | RdItem::Ev(AbsEv::Decl) | RdItem::Ev(AbsEv::PI) | RdItem::Ev(AbsEv::DocType) => { lemma_build_wf(s, rest, known); },
            RdItem::Ev(AbsEv::Text(b)) | RdItem::Ev(AbsEv::CData(b)) => {
                if utf8_ok(b) { let s1 = GEl { text_some: true, ..s }; assert(g_wf(s1)); lemma_build_wf(s1, rest, known); }
            },
            RdItem::Ev(AbsEv::Empty(t)) => {
                if g_tag_ok(t) {
                    lemma_parse_tag_wf(s, t, known, None);
                    let r = g_parse_tag(s, t, known, None);
                    if r.0 is Some {
                        lemma_tag_opt_wf(r.0->Some_0, utf8_str(t.name), Map::empty());
                        lemma_build_wf(g_tag_opt(r.0->Some_0, utf8_str(t.name), Map::empty()), rest, r.1);
                    }
                }
            },
            RdItem::Ev(AbsEv::Start(t)) => {
                if g_tag_ok(t) {
                    let cc = g_count_children(s, utf8_str(t.name));
                    lemma_parse_tag_wf(s, t, known, Some(rest));
                    let r = g_parse_tag(s, t, known, Some(rest));
                    if r.0 is Some {
                        lemma_tag_opt_wf(r.0->Some_0, utf8_str(t.name), cc.0);
                        let s2 = if cc.1 { g_tag_opt(r.0->Some_0, utf8_str(t.name), cc.0) } else { r.0->Some_0 };
                        if r.2.len() < p.len() { lemma_build_wf(s2, r.2, r.1); }
                    }
                }
            },
            _ => {},
        }
    }
}
pub proof fn lemma_parse_tag_wf(s: GEl, t: Tag, known: Seq<String>, content: Option<Seq<RdItem>>)
    requires g_wf(s),
    ensures g_parse_tag(s, t, known, content).0 is Some ==> g_wf(g_parse_tag(s, t, known, content).0->Some_0) && g_parse_tag(s, t, known, content).0->Some_0.name == s.name,
    decreases (match content { Some(p) => p.len(), None => 0 }), 1int
{
    lemma_parse_tag_unfold(s, t, known, content);
    lemma_base_wf(s, t, known);
    let base = g_base(s, t, known);
    let n = utf8_str(t.name);
    match content {
        Some(p) => {
            lemma_build_wf(base, p, Seq::empty());
            let inner = g_build(base, p, Seq::empty());
            if inner.0 is Some { lemma_attach_wf(s, n, inner.0->Some_0); }
        },
        None => { lemma_attach_wf(s, n, base); },
    }
}

} // verus!
