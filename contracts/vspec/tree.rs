//! Specification vocabulary for `Element<T>` trees: `kid_idx`, `uniq`, deep `wf` (C16).
#![allow(unused_imports)]
use vstd::prelude::*;
use vstd::std_specs::cmp::PartialEqSpec;
use crate::element::Element;
use crate::necessity::Necessity;
use super::*;
verus! {

/// index of the first entry whose element is called `name`, or `kids.len()` if there is none
pub open spec fn kid_idx<T>(kids: Seq<Necessity<Element<T>>>, name: T) -> int
    decreases kids.len()
{
    if kids.len() == 0 { 0 } else if kids[0].val().name == name { 0 } else { 1 + kid_idx(kids.drop_first(), name) }
}
pub proof fn lemma_kid_idx<T>(kids: Seq<Necessity<Element<T>>>, name: T)
    ensures
        0 <= kid_idx(kids, name) <= kids.len(),
        kid_idx(kids, name) < kids.len() ==> kids[kid_idx(kids, name)].val().name == name,
        forall|j: int| 0 <= j < kid_idx(kids, name) ==> (#[trigger] kids[j]).val().name != name,
    decreases kids.len()
{
    if kids.len() > 0 && kids[0].val().name != name {
        let t = kids.drop_first();
        lemma_kid_idx(t, name);
        assert(forall|j: int| 1 <= j < kid_idx(kids, name) ==> (#[trigger] kids[j]) == t[j - 1]);
    }
}
/// `k` is the index `kid_idx` computes: nothing called `name` before `k`, and `k` is the end or an entry called `name`
pub proof fn lemma_kid_idx_is<T>(kids: Seq<Necessity<Element<T>>>, name: T, k: int)
    requires
        0 <= k <= kids.len(),
        forall|j: int| 0 <= j < k ==> (#[trigger] kids[j]).val().name != name,
        k < kids.len() ==> kids[k].val().name == name,
    ensures kid_idx(kids, name) == k,
    decreases kids.len()
{
    if kids.len() > 0 && k > 0 {
        let t = kids.drop_first();
        assert(kids[0].val().name != name);
        assert forall|j: int| 0 <= j < k - 1 implies (#[trigger] t[j]).val().name != name by { assert(t[j] == kids[j + 1]); }
        if k < kids.len() { assert(t[k - 1] == kids[k]); }
        lemma_kid_idx_is(t, name, k - 1);
    }
}
/// the children seen as a MAP from names to entries: the entry of the child called `name`, if any
pub open spec fn entry<T>(kids: Seq<Necessity<Element<T>>>, name: T) -> Option<Necessity<Element<T>>> {
    if kid_idx(kids, name) < kids.len() { Some(kids[kid_idx(kids, name)]) } else { None }
}
/// `new` is `old` with the child called `name` (if there is one) retagged Optional - same element value, hence the same
/// subtree - and every other entry untouched.  A statement about the map; the order of the vector is not constrained.
pub open spec fn marked_optional_map<T>(old: Seq<Necessity<Element<T>>>, new: Seq<Necessity<Element<T>>>, name: T) -> bool {
    &&& new.len() == old.len()
    &&& forall|n: T| #[trigger] entry(new, n) == (if n == name {
            match entry(old, n) { Some(k) => Some(Necessity::Optional(k.val())), None => None }
        } else { entry(old, n) })
}
/// child names pairwise distinct (the representation invariant of C16)
pub open spec fn uniq_kids<T>(kids: Seq<Necessity<Element<T>>>) -> bool {
    forall|i: int, j: int| 0 <= i < j < kids.len() ==> (#[trigger] kids[i]).val().name != (#[trigger] kids[j]).val().name
}
impl<T> Element<T> {
    pub open spec fn uniq(self) -> bool { uniq_kids(self.children@) }
    /// unique child names at every level
    pub open spec fn wf(self) -> bool
        decreases self
    {
        &&& uniq_kids(self.children@)
        &&& forall|i: int| 0 <= i < self.children@.len() ==> (#[trigger] self.children@[i]).val().wf()
    }
    /// every field except `position` agrees
    pub open spec fn same_but_position(self, o: Element<T>) -> bool {
        self.name == o.name && self.text == o.text && self.standalone == o.standalone && self.count == o.count
            && self.attributes == o.attributes && self.children == o.children
    }
    /// every field except `children` agrees
    pub open spec fn same_but_children(self, o: Element<T>) -> bool {
        self.name == o.name && self.text == o.text && self.standalone == o.standalone && self.count == o.count
            && self.attributes == o.attributes && self.position == o.position
    }
}
impl<T: std::cmp::PartialEq> vstd::std_specs::cmp::PartialEqSpecImpl for Element<T> {
    open spec fn obeys_eq_spec() -> bool { <T as vstd::std_specs::cmp::PartialEqSpec>::obeys_eq_spec() }
    open spec fn eq_spec(&self, other: &Element<T>) -> bool {
        vstd::std_specs::cmp::PartialEqSpec::eq_spec(&self.name, &other.name)
    }
}

} // verus!
