//! Specification vocabulary for `Element<T>` trees: `kid_idx`, `uniq`, deep `wf` (C16).
#![allow(unused_imports)]
use vstd::prelude::*;
use vstd::std_specs::cmp::PartialEqSpec;
use crate::element::Element;
use crate::necessity::Necessity;
use super::*;
verus! {

/// index of the first entry whose element is called `name`, or `kids.len()` if there is none
pub open spec fn kid_idx<T>(kids: Seq<Necessity<Element<T>>>, name: T) -> int
    decreases kids.len()
{
    if kids.len() == 0 { 0 } else if kids[0].val().name == name { 0 } else { 1 + kid_idx(kids.drop_first(), name) }
}
pub proof fn lemma_kid_idx<T>(kids: Seq<Necessity<Element<T>>>, name: T)
    ensures
        0 <= kid_idx(kids, name) <= kids.len(),
        kid_idx(kids, name) < kids.len() ==> kids[kid_idx(kids, name)].val().name == name,
        forall|j: int| 0 <= j < kid_idx(kids, name) ==> (#[trigger] kids[j]).val().name != name,
    decreases kids.len()
{
    if kids.len() > 0 && kids[0].val().name != name {
        let t = kids.drop_first();
        lemma_kid_idx(t, name);
        assert(forall|j: int| 1 <= j < kid_idx(kids, name) ==> (#[trigger] kids[j]) == t[j - 1]);
    }
}
/// child names pairwise distinct (the representation invariant of C16)
pub open spec fn uniq_kids<T>(kids: Seq<Necessity<Element<T>>>) -> bool {
    forall|i: int, j: int| 0 <= i < j < kids.len() ==> (#[trigger] kids[i]).val().name != (#[trigger] kids[j]).val().name
}
impl<T> Element<T> {
    pub open spec fn uniq(self) -> bool { uniq_kids(self.children@) }
    /// unique child names at every level
    pub open spec fn wf(self) -> bool
        decreases self
    {
        &&& uniq_kids(self.children@)
        &&& forall|i: int| 0 <= i < self.children@.len() ==> (#[trigger] self.children@[i]).val().wf()
    }
    /// every field except `position` agrees
    pub open spec fn same_but_position(self, o: Element<T>) -> bool {
        self.name == o.name && self.text == o.text && self.standalone == o.standalone && self.count == o.count
            && self.attributes == o.attributes && self.children == o.children
    }
    /// every field except `children` agrees
    pub open spec fn same_but_children(self, o: Element<T>) -> bool {
        self.name == o.name && self.text == o.text && self.standalone == o.standalone && self.count == o.count
            && self.attributes == o.attributes && self.position == o.position
    }
}
impl<T: std::cmp::PartialEq> vstd::std_specs::cmp::PartialEqSpecImpl for Element<T> {
    open spec fn obeys_eq_spec() -> bool { <T as vstd::std_specs::cmp::PartialEqSpec>::obeys_eq_spec() }
    open spec fn eq_spec(&self, other: &Element<T>) -> bool {
        vstd::std_specs::cmp::PartialEqSpec::eq_spec(&self.name, &other.name)
    }
}

} // verus!
