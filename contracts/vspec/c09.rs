//! C09 (tree half) over the ghost algorithm: children ordered by `position` are the previously known children followed
//! by the new ones in order of first appearance at that nesting level.  Independent of the repository's code.
#![allow(unused_imports)]
use vstd::prelude::*;
use crate::element::Element;
use crate::necessity::Necessity;
use super::*;
verus! {

/// `o` lists the children's names in position order: slot q of `o` holds the name of the child whose position is q
pub open spec fn is_pos_order(kids: Seq<Necessity<GEl>>, o: Seq<String>) -> bool {
    &&& o.len() == kids.len()
    &&& forall|m: String| #[trigger] g_has(kids, m) == o.contains(m)
    &&& forall|q: int| 0 <= q < o.len() ==> g_kid(kids, #[trigger] o[q]).val().position == Some(q as usize)
}
/// first-appearance order: append every tag name that is not yet in the list
pub open spec fn order_after(o: Seq<String>, ts: Seq<Tag>) -> Seq<String>
    decreases ts.len()
{
    if ts.len() == 0 { o } else {
        let n = utf8_str(ts[0].name);
        order_after(if o.contains(n) { o } else { o.push(n) }, ts.drop_first())
    }
}
pub proof fn lemma_order_after_cons(o: Seq<String>, t: Tag, ts: Seq<Tag>)
    ensures order_after(o, seq![t] + ts) == order_after(if o.contains(utf8_str(t.name)) { o } else { o.push(utf8_str(t.name)) }, ts),
{
    assert((seq![t] + ts).drop_first() =~= ts);
}
/// attaching the (re)parsed child c2 called n: its position is kept if it had one, otherwise it gets the next free slot
pub proof fn lemma_attach_order(s: GEl, n: String, c2: GEl, o: Seq<String>)
    requires
        g_wf(s), c2.name == n, is_pos_order(s.kids, o),
        g_has(s.kids, n) ==> c2.position == g_kid(s.kids, n).val().position,
        !g_has(s.kids, n) ==> c2.position is None,
    ensures is_pos_order(g_attach(s, n, c2).kids, if o.contains(n) { o } else { o.push(n) }),
{
    let a = g_attach(s, n, c2);
    let o2 = if o.contains(n) { o } else { o.push(n) };
    let rk = g_rest_kids(s, n);
    lemma_g_idx(s.kids, n);
    assert(g_has(s.kids, n) == o.contains(n));
    assert(a.kids.len() == o2.len());
    assert forall|m: String| #[trigger] g_has(a.kids, m) == o2.contains(m) by {
        lemma_attach_kids(s, n, c2, m);
        assert(g_has(s.kids, m) == o.contains(m));
        if !o.contains(n) {
            if o.contains(m) { let w = choose|w: int| 0 <= w < o.len() && o[w] == m; assert(o2[w] == m); }
            if m == n { assert(o2[o2.len() - 1] == n); }
            if o2.contains(m) { let w = choose|w: int| 0 <= w < o2.len() && o2[w] == m; if w < o.len() { assert(o[w] == m); } }
        }
    }
    assert forall|q: int| 0 <= q < o2.len() implies g_kid(a.kids, #[trigger] o2[q]).val().position == Some(q as usize) by {
        let m = o2[q];
        lemma_attach_kids(s, n, c2, m);
        lemma_kid_remove_push(s.kids, n, Necessity::Mandatory(GEl { position: if c2.position is None { Some(rk.len() as usize) } else { c2.position }, ..c2 }), m);
        if q < o.len() {
            assert(o[q] == m);
            assert(o.contains(m));
            assert(g_has(s.kids, m));
            assert(g_kid(s.kids, m).val().position == Some(q as usize));
        } else {
            assert(m == n && !g_has(s.kids, n));
            assert(rk.len() == s.kids.len());
        }
    }
}
pub proof fn lemma_tag_opt_order(s: GEl, n: String, snap: Map<String, u32>, o: Seq<String>)
    requires g_wf(s), is_pos_order(s.kids, o),
    ensures is_pos_order(g_tag_opt(s, n, snap).kids, o),
{
    let t = g_tag_opt(s, n, snap);
    lemma_tag_opt_frame(s, n, snap);
    assert forall|m: String| #[trigger] g_has(t.kids, m) == o.contains(m) by {
        lemma_tag_opt_kids(s, n, snap, m);
        assert(g_has(s.kids, m) == o.contains(m));
    }
    assert forall|q: int| 0 <= q < o.len() implies g_kid(t.kids, #[trigger] o[q]).val().position == Some(q as usize) by {
        let m = o[q];
        lemma_tag_opt_kids(s, n, snap, m);
        assert(o.contains(m));
        assert(g_has(s.kids, m));
    }
}
/// THEOREM (C09, tree half): after a successful g_build the children's position order is the old order followed by
/// the new names in order of first appearance at this nesting level
pub proof fn theorem_level_order(s: GEl, p: Seq<RdItem>, known: Seq<String>, o: Seq<String>)
    requires g_wf(s), is_pos_order(s.kids, o),
    ensures g_build(s, p, known).0 is Some ==> is_pos_order(g_build(s, p, known).0->Some_0.kids, order_after(o, level_tags(p))),
    decreases p.len()
{
    if g_build(s, p, known).0 is Some && p.len() > 0 {
        let rest = p.drop_first();
        match p[0] {
            RdItem::Ev(AbsEv::Comment) | RdItem::Ev(AbsEv::Decl) | RdItem::Ev(AbsEv::PI) | RdItem::Ev(AbsEv::DocType) => { theorem_level_order(s, rest, known, o); },
            RdItem::Ev(AbsEv::Text(b)) | RdItem::Ev(AbsEv::CData(b)) => {
                let s1 = GEl { text_some: true, ..s };
                assert(g_wf(s1));
                theorem_level_order(s1, rest, known, o);
            },
            RdItem::Ev(AbsEv::Empty(t)) => {
                let n = utf8_str(t.name);
                lemma_parse_tag_unfold(s, t, known, None);
                lemma_base_wf(s, t, known);
                lemma_g_idx(s.kids, n);
                let base = g_base(s, t, known);
                if g_has(s.kids, n) { lemma_kid_is(s.kids, n, g_idx(s.kids, n)); }
                lemma_attach_order(s, n, base, o);
                lemma_attach_wf(s, n, base);
                let s1 = g_attach(s, n, base);
                let o2 = if o.contains(n) { o } else { o.push(n) };
                lemma_tag_opt_order(s1, n, Map::empty(), o2);
                lemma_tag_opt_wf(s1, n, Map::empty());
                let s2 = g_tag_opt(s1, n, Map::empty());
                assert(g_build(s, p, known) == g_build(s2, rest, g_known2(known, n)));
                theorem_level_order(s2, rest, g_known2(known, n), o2);
                lemma_order_after_cons(o, t, level_tags(rest));
            },
            RdItem::Ev(AbsEv::Start(t)) => {
                let n = utf8_str(t.name);
                let cc = g_count_children(s, n);
                lemma_parse_tag_unfold(s, t, known, Some(rest));
                lemma_base_wf(s, t, known);
                lemma_g_idx(s.kids, n);
                let base = g_base(s, t, known);
                let inner = g_build(base, rest, Seq::empty());
                let c2 = inner.0->Some_0;
                lemma_build_wf(base, rest, Seq::empty());
                lemma_build_rest_scan(base, rest, Seq::empty());
                lemma_level(base, rest, Seq::empty(), n);   // the content keeps the node's own position
                if g_has(s.kids, n) { lemma_kid_is(s.kids, n, g_idx(s.kids, n)); }
                lemma_attach_order(s, n, c2, o);
                lemma_attach_wf(s, n, c2);
                let s1 = g_attach(s, n, c2);
                let o2 = if o.contains(n) { o } else { o.push(n) };
                lemma_tag_opt_order(s1, n, cc.0, o2);
                lemma_tag_opt_wf(s1, n, cc.0);
                let s2 = if cc.1 { g_tag_opt(s1, n, cc.0) } else { s1 };
                assert(inner.1.len() < p.len());
                assert(g_build(s, p, known) == g_build(s2, inner.1, g_known2(known, n)));
                theorem_level_order(s2, inner.1, g_known2(known, n), o2);
                lemma_order_after_cons(o, t, level_tags(inner.1));
            },
            _ => {},
        }
    }
}

} // verus!
