//! Attributes across all occurrences of an element at one nesting level (C03 / C01 / C09, attribute half): the attribute
//! list of the child called n after g_build is the fold of spec_merge over the start tags of its occurrences, and - by
//! theorem_c15 at every step - an attribute is Mandatory iff it is on EVERY occurrence, present iff on SOME occurrence.
//! Needs that the attribute keys of one start tag are pairwise distinct (quick_xml reports a duplicate as an error,
//! i.e. as `None` in the event model; stated here as the hypothesis `tags_dup_free`).
#![allow(unused_imports)]
use vstd::prelude::*;
use crate::element::Element;
use crate::necessity::Necessity;
use super::*;
verus! {

/// the start tags of the occurrences of n at this level (parallel to level_occs)
pub open spec fn occ_tags(p: Seq<RdItem>, n: String) -> Seq<Tag>
    decreases p.len()
{
    if p.len() == 0 { Seq::empty() } else {
        let rest = p.drop_first();
        match p[0] {
            RdItem::Err => Seq::empty(),
            RdItem::Ev(AbsEv::Eof) => Seq::empty(),
            RdItem::Ev(AbsEv::End) => Seq::empty(),
            RdItem::Ev(AbsEv::Empty(t)) => (if utf8_str(t.name) == n { seq![t] } else { Seq::empty() }) + occ_tags(rest, n),
            RdItem::Ev(AbsEv::Start(t)) => (if utf8_str(t.name) == n { seq![t] } else { Seq::empty() })
                + (if scan(rest).1.len() < p.len() { occ_tags(scan(rest).1, n) } else { Seq::empty() }),
            _ => occ_tags(rest, n),
        }
    }
}
/// fold of the attribute merge over the occurrences' start tags
pub open spec fn attrs_after(x: Option<Seq<Necessity<String>>>, tags: Seq<Tag>) -> Option<Seq<Necessity<String>>>
    decreases tags.len()
{
    if tags.len() == 0 { x } else {
        let first = match x { Some(a) => spec_merge(a, mand_decode(tags[0].attrs)), None => mand_decode(tags[0].attrs) };
        attrs_after(Some(first), tags.drop_first())
    }
}
pub open spec fn kid_attrs(x: Option<GEl>) -> Option<Seq<Necessity<String>>> { match x { Some(e) => Some(e.attrs), None => None } }

pub proof fn lemma_attrs_after_cons(x: Option<Seq<Necessity<String>>>, t: Tag, tags: Seq<Tag>)
    ensures attrs_after(x, seq![t] + tags) == attrs_after(Some(match x { Some(a) => spec_merge(a, mand_decode(t.attrs)), None => mand_decode(t.attrs) }), tags),
{
    assert((seq![t] + tags).drop_first() =~= tags);
}
/// THEOREM: the attributes of the child called n after g_build are the fold over the start tags of its occurrences
pub proof fn theorem_level_attrs(s: GEl, p: Seq<RdItem>, known: Seq<String>, n: String)
    requires g_wf(s),
    ensures
        g_build(s, p, known).0 is Some ==> ({
            let w = g_build(s, p, known).0->Some_0;
            g_has(w.kids, n) ==> Some(g_kid(w.kids, n).val().attrs) == attrs_after(kid_attrs(kid_opt(Some(s), n)), occ_tags(p, n))
        }),
    decreases p.len()
{
    if g_build(s, p, known).0 is Some && p.len() > 0 {
        let rest = p.drop_first();
        match p[0] {
            RdItem::Ev(AbsEv::Comment) | RdItem::Ev(AbsEv::Decl) | RdItem::Ev(AbsEv::PI) | RdItem::Ev(AbsEv::DocType) => { theorem_level_attrs(s, rest, known, n); },
            RdItem::Ev(AbsEv::Text(b)) | RdItem::Ev(AbsEv::CData(b)) => {
                let s1 = GEl { text_some: true, ..s };
                assert(g_wf(s1));
                theorem_level_attrs(s1, rest, known, n);
            },
            RdItem::Ev(AbsEv::Empty(t)) => {
                lemma_build_is_occurrence_steps(s, p, known, t);
                let s2 = g_occ_empty(s, t, known)->Some_0;
                let k2 = g_parse_tag(s, t, known, None).1;
                attrs_step(s, p, known, n, t, s2, rest, k2, None);
            },
            RdItem::Ev(AbsEv::Start(t)) => {
                let r = g_parse_tag(s, t, known, Some(rest));
                assert(r.0 is Some && r.2.len() < p.len());
                lemma_build_is_occurrence_steps(s, p, known, t);
                let s2 = g_occ_start(s, t, known, rest)->Some_0;
                lemma_parse_tag_unfold(s, t, known, Some(rest));
                lemma_build_rest_scan(g_base(s, t, known), rest, Seq::empty());
                attrs_step(s, p, known, n, t, s2, r.2, r.1, Some(rest));
            },
            _ => {},
        }
    }
}
proof fn attrs_step(s: GEl, p: Seq<RdItem>, known: Seq<String>, n: String, t: Tag, s2: GEl, tail_stream: Seq<RdItem>, k2: Seq<String>, first: Option<Seq<RdItem>>)
    requires
        g_wf(s), g_tag_ok(t), p.len() > 0, tail_stream.len() < p.len(),
        g_build(s, p, known).0 is Some,
        g_build(s, p, known) == g_build(s2, tail_stream, k2),
        match first { Some(c) => p[0] == RdItem::Ev(AbsEv::Start(t)) && c == p.drop_first() && g_occ_start(s, t, known, c) == Some(s2) && tail_stream == scan(c).1,
                      None => p[0] == RdItem::Ev(AbsEv::Empty(t)) && g_occ_empty(s, t, known) == Some(s2) && tail_stream == p.drop_first() },
    ensures
        ({
            let w = g_build(s, p, known).0->Some_0;
            g_has(w.kids, n) ==> Some(g_kid(w.kids, n).val().attrs) == attrs_after(kid_attrs(kid_opt(Some(s), n)), occ_tags(p, n))
        }),
    decreases p.len(), 0int
{
    let nt = utf8_str(t.name);
    let w = g_build(s, p, known).0->Some_0;
    let tail = occ_tags(tail_stream, n);
    lemma_occurrence_kids(s, t, known, first, s2, n);
    theorem_level_attrs(s2, tail_stream, k2, n);
    if g_has(w.kids, n) {
        if nt != n {
            assert(occ_tags(p, n) =~= tail);
            lemma_step_frame(s, t, known, first, s2, n);
        } else {
            assert(occ_tags(p, n) =~= seq![t] + tail);
            let x = kid_opt(Some(s), n);
            let x2 = g_kid(s2.kids, n).val();
            match first {
                Some(c) => { theorem_occurrence_start(s, t, known, c, n); },
                None => { theorem_occurrence_empty(s, t, known, n); },
            }
            // occ_post gives x2.attrs == spec_merge(x.attrs, mand_decode(t.attrs)) or mand_decode(t.attrs)
            lemma_attrs_after_cons(kid_attrs(x), t, tail);
        }
    }
}

// ---------------------------------------------------------------- closed form for the fold (statement of C03 for attributes)
pub open spec fn tag_has(t: Tag, a: String) -> bool { has(mand_decode(t.attrs), a) }
pub open spec fn tags_dup_free(tags: Seq<Tag>) -> bool { forall|i: int| 0 <= i < tags.len() ==> dup_free(mand_decode((#[trigger] tags[i]).attrs)) }
pub proof fn lemma_mand_decode_all_mandatory(a: Seq<Option<Seq<u8>>>, x: String)
    ensures mand_in(mand_decode(a), x) == has(mand_decode(a), x),
{
    lemma_mand_decode(a);
    let m = mand_decode(a);
    if has(m, x) { let i = choose|i: int| 0 <= i < m.len() && (#[trigger] m[i]).val() == x; assert(m[i] is Mandatory); }
    if mand_in(m, x) { let i = choose|i: int| 0 <= i < m.len() && (#[trigger] m[i]).val() == x && m[i] is Mandatory; assert(m[i].val() == x); }
}
/// THEOREM (attributes, all occurrences): an attribute has an entry iff it was there before or is on some occurrence;
/// it is Mandatory iff it is on every occurrence and was Mandatory before (or the element is new); the list stays duplicate-free
pub proof fn theorem_attrs_closed_form(x: Option<Seq<Necessity<String>>>, tags: Seq<Tag>, a: String)
    requires
        x is Some ==> dup_free(x->Some_0),
        tags_dup_free(tags),
        x is Some || tags.len() > 0,
    ensures
        ({
            let r = attrs_after(x, tags)->Some_0;
            &&& attrs_after(x, tags) is Some
            &&& dup_free(r)
            &&& has(r, a) == ((x is Some && has(x->Some_0, a)) || exists|i: int| 0 <= i < tags.len() && tag_has(#[trigger] tags[i], a))
            &&& mand_in(r, a) == ((x is None || mand_in(x->Some_0, a)) && forall|i: int| 0 <= i < tags.len() ==> tag_has(#[trigger] tags[i], a))
        }),
    decreases tags.len()
{
    if tags.len() > 0 {
        let t = tags[0];
        let rest = tags.drop_first();
        let d = mand_decode(t.attrs);
        assert(dup_free(d));
        lemma_mand_decode_all_mandatory(t.attrs, a);
        let first = match x { Some(xa) => spec_merge(xa, d), None => d };
        match x { Some(xa) => { theorem_c15(xa, d, a); }, None => {} }
        assert(tags_dup_free(rest)) by {
            assert forall|i: int| 0 <= i < rest.len() implies dup_free(mand_decode((#[trigger] rest[i]).attrs)) by { assert(rest[i] == tags[i + 1]); }
        }
        theorem_attrs_closed_form(Some(first), rest, a);
        let ex_rest = exists|i: int| 0 <= i < rest.len() && tag_has(#[trigger] rest[i], a);
        let ex_all = exists|i: int| 0 <= i < tags.len() && tag_has(#[trigger] tags[i], a);
        assert(ex_all == (tag_has(t, a) || ex_rest)) by {
            if ex_all { let i = choose|i: int| 0 <= i < tags.len() && tag_has(#[trigger] tags[i], a); if i > 0 { assert(rest[i - 1] == tags[i]); assert(tag_has(rest[i - 1], a)); } }
            if tag_has(t, a) { assert(tag_has(tags[0], a)); }
            if ex_rest { let i = choose|i: int| 0 <= i < rest.len() && tag_has(#[trigger] rest[i], a); assert(tag_has(tags[i + 1], a)); }
        }
        let all_rest = forall|i: int| 0 <= i < rest.len() ==> tag_has(#[trigger] rest[i], a);
        let all_all = forall|i: int| 0 <= i < tags.len() ==> tag_has(#[trigger] tags[i], a);
        assert(all_all == (tag_has(t, a) && all_rest)) by {
            if all_all { assert(tag_has(tags[0], a)); assert forall|i: int| 0 <= i < rest.len() implies tag_has(#[trigger] rest[i], a) by { assert(tag_has(tags[i + 1], a)); } }
            if tag_has(t, a) && all_rest { assert forall|i: int| 0 <= i < tags.len() implies tag_has(#[trigger] tags[i], a) by { if i > 0 { assert(tags[i] == rest[i - 1]); } } }
        }
    }
}

} // verus!
