//! Parser-level specification: snapshot/demotion rule, the C08 oracle `scan`, lifting lemmas to the ghost tree.
#![allow(unused_imports)]
use vstd::prelude::*;
use vstd::std_specs::cmp::PartialEqSpec;
use crate::element::Element;
use crate::necessity::Necessity;
use quick_xml::reader::Reader;
use super::*;
verus! {

/// counts of the currently-Mandatory children, as a map (fold over the list in order)
pub open spec fn mand_counts(kids: Seq<Necessity<Element<String>>>) -> Map<String, u32>
    decreases kids.len()
{
    if kids.len() == 0 { Map::empty() } else {
        let pre = mand_counts(kids.drop_last());
        if kids.last() is Mandatory { pre.insert(kids.last().val().name, kids.last().val().count) } else { pre }
    }
}
/// the demotion rule of tag_optional_children for one child
pub open spec fn demote_rule(c: Necessity<Element<String>>, snap: Map<String, u32>) -> bool {
    if snap.contains_key(c.val().name) { snap[c.val().name] == c.val().count } else { c is Mandatory }
}
pub open spec fn to_optional_names(kids: Seq<Necessity<Element<String>>>, snap: Map<String, u32>) -> Seq<String>
    decreases kids.len()
{
    if kids.len() == 0 { Seq::empty() } else {
        let pre = to_optional_names(kids.drop_last(), snap);
        if demote_rule(kids.last(), snap) { pre.push(kids.last().val().name) } else { pre }
    }
}
pub open spec fn demote(kids: Seq<Necessity<Element<String>>>, name: String) -> Seq<Necessity<Element<String>>> {
    let i = kid_idx(kids, name);
    if i < kids.len() { kids.remove(i).push(Necessity::Optional(kids[i].val())) } else { kids }
}
/// apply `demote` for the names taken from the END of the list first (Vec::pop order)
pub open spec fn demote_all_rev(kids: Seq<Necessity<Element<String>>>, names: Seq<String>) -> Seq<Necessity<Element<String>>>
    decreases names.len()
{
    if names.len() == 0 { kids } else { demote_all_rev(demote(kids, names.last()), names.drop_last()) }
}

/// postcondition of tag_optional_children: only the children list of the child named `n` changes, by the demotion rule
pub open spec fn tag_opt_post(root: Element<String>, n: String, snap: Map<String, u32>, r: Element<String>) -> bool {
    let i = kid_idx(root.children@, n);
    &&& r.same_but_children(root)
    &&& r.children@.len() == root.children@.len()
    &&& forall|j: int| 0 <= j < root.children@.len() && j != i ==> #[trigger] r.children@[j] == root.children@[j]
    &&& i < root.children@.len() ==> {
        let x = root.children@[i].val();
        let y = r.children@[i].val();
        &&& (r.children@[i] is Mandatory) == (root.children@[i] is Mandatory)
        &&& y.same_but_children(x)
        &&& y.children@ == demote_all_rev(x.children@, to_optional_names(x.children@, snap))
    }
}

/// C08 oracle: scan one nesting level of the pending stream in order; (no error occurred, what is left)
pub open spec fn scan(p: Seq<RdItem>) -> (bool, Seq<RdItem>)
    decreases p.len()
{
    if p.len() == 0 { (true, p) } else {
        let rest = p.drop_first();
        match p[0] {
            RdItem::Err => (false, rest),
            RdItem::Ev(AbsEv::Eof) => (true, rest),
            RdItem::Ev(AbsEv::End) => (true, rest),
            RdItem::Ev(AbsEv::Comment) => scan(rest),
            RdItem::Ev(AbsEv::Decl) => scan(rest),
            RdItem::Ev(AbsEv::PI) => scan(rest),
            RdItem::Ev(AbsEv::DocType) => scan(rest),
            RdItem::Ev(AbsEv::Text(b)) => if utf8_ok(b) { scan(rest) } else { (false, rest) },
            RdItem::Ev(AbsEv::CData(b)) => if utf8_ok(b) { scan(rest) } else { (false, rest) },
            RdItem::Ev(AbsEv::Empty(t)) => if g_tag_ok(t) { scan(rest) } else { (false, rest) },
            RdItem::Ev(AbsEv::Start(t)) => if !g_tag_ok(t) { (false, rest) } else {
                let inner = scan(rest);
                if !inner.0 { (false, inner.1) } else if inner.1.len() < p.len() { scan(inner.1) } else { (false, inner.1) }
            },
        }
    }
}
pub proof fn lemma_scan_shrinks(p: Seq<RdItem>)
    ensures scan(p).1.len() <= p.len(), p.len() > 0 ==> scan(p).1.len() < p.len(),
    decreases p.len()
{
    if p.len() > 0 {
        let rest = p.drop_first();
        match p[0] {
            RdItem::Ev(AbsEv::Comment) | RdItem::Ev(AbsEv::Decl) | RdItem::Ev(AbsEv::PI) | RdItem::Ev(AbsEv::DocType) => { lemma_scan_shrinks(rest); },
            RdItem::Ev(AbsEv::Text(b)) | RdItem::Ev(AbsEv::CData(b)) => { lemma_scan_shrinks(rest); },
            RdItem::Ev(AbsEv::Empty(t)) => { lemma_scan_shrinks(rest); },
            RdItem::Ev(AbsEv::Start(t)) => {
                lemma_scan_shrinks(rest);
                if g_tag_ok(t) && scan(rest).0 { lemma_scan_shrinks(scan(rest).1); }
            },
            _ => {},
        }
    }
}
pub open spec fn opt_pending<R>(r: Option<&mut Reader<R>>) -> Seq<RdItem> {
    match r { Some(x) => rd_pending(*x), None => Seq::empty() }
}
#[verifier::prophetic]
pub open spec fn opt_pos_final<R>(r: Option<&mut Reader<R>>) -> u64 {
    match r { Some(x) => rd_pos(*final(x)), None => 0 }
}
#[verifier::prophetic]
pub open spec fn opt_pending_final<R>(r: Option<&mut Reader<R>>) -> Seq<RdItem> {
    match r { Some(x) => rd_pending(*final(x)), None => Seq::empty() }
}

pub proof fn lemma_attrs_ok_step(s: Seq<Option<Seq<u8>>>)
    requires s.len() > 0,
    ensures g_attrs_ok(s) <==> (s[0] is Some && utf8_ok(s[0]->Some_0) && g_attrs_ok(s.drop_first())),
{
    let t = s.drop_first();
    if g_attrs_ok(s) {
        assert(s[0] is Some && utf8_ok(s[0]->Some_0));
        assert forall|k: int| 0 <= k < t.len() implies (#[trigger] t[k]) is Some && utf8_ok(t[k]->Some_0) by { assert(t[k] == s[k + 1]); }
    }
    if s[0] is Some && utf8_ok(s[0]->Some_0) && g_attrs_ok(t) {
        assert forall|k: int| 0 <= k < s.len() implies (#[trigger] s[k]) is Some && utf8_ok(s[k]->Some_0) by { if k > 0 { assert(s[k] == t[k - 1]); } }
    }
}

/// removing the entry called `name` from a duplicate-free, well-formed list keeps it so, and `name` is then absent
pub proof fn lemma_remove_kid(kids: Seq<Necessity<Element<String>>>, name: String)
    requires
        uniq_kids(kids),
        kid_idx(kids, name) < kids.len(),
    ensures
        uniq_kids(kids.remove(kid_idx(kids, name))),
        kid_idx(kids.remove(kid_idx(kids, name)), name) >= kids.len() - 1,
        (forall|j: int| 0 <= j < kids.len() ==> (#[trigger] kids[j]).val().wf()) ==>
            (forall|j: int| 0 <= j < kids.len() - 1 ==> (#[trigger] kids.remove(kid_idx(kids, name))[j]).val().wf()),
{
    let i = kid_idx(kids, name);
    let r = kids.remove(i);
    lemma_kid_idx(kids, name);
    lemma_kid_idx(r, name);
    assert(forall|j: int| 0 <= j < r.len() ==> (#[trigger] r[j]) == (if j < i { kids[j] } else { kids[j + 1] }));
    if kid_idx(r, name) < r.len() {
        let k = kid_idx(r, name);
        let kk = if k < i { k } else { k + 1 };
        assert(kids[kk].val().name == name && kids[i].val().name == name && kk != i);
    }
}

// ---- lifting the list-level helper specs to the ghost tree (layer T1) ----
pub proof fn lemma_abs_n_fields(c: Necessity<Element<String>>)
    ensures
        abs_n(c).val().name == c.val().name, abs_n(c).val().count == c.val().count,
        (abs_n(c) is Mandatory) == (c is Mandatory), abs_n(c).val() == abs(c.val()),
{}
pub proof fn lemma_mand_counts_lift(kids: Seq<Necessity<Element<String>>>)
    ensures g_mand_counts(abs_kids(kids)) == mand_counts(kids),
    decreases kids.len()
{
    lemma_abs_kids_index(kids);
    if kids.len() > 0 {
        lemma_mand_counts_lift(kids.drop_last());
        assert(abs_kids(kids).drop_last() =~= abs_kids(kids.drop_last()));
        lemma_abs_n_fields(kids.last());
    }
}
pub proof fn lemma_to_optional_lift(kids: Seq<Necessity<Element<String>>>, snap: Map<String, u32>)
    ensures g_to_optional_names(abs_kids(kids), snap) == to_optional_names(kids, snap),
    decreases kids.len()
{
    lemma_abs_kids_index(kids);
    if kids.len() > 0 {
        lemma_to_optional_lift(kids.drop_last(), snap);
        assert(abs_kids(kids).drop_last() =~= abs_kids(kids.drop_last()));
        lemma_abs_n_fields(kids.last());
    }
}
pub proof fn lemma_demote_lift(kids: Seq<Necessity<Element<String>>>, name: String)
    ensures abs_kids(demote(kids, name)) == g_demote(abs_kids(kids), name),
{
    lemma_idx_agree(kids, name);
    lemma_abs_kids_index(kids);
    let i = kid_idx(kids, name);
    if i < kids.len() {
        lemma_abs_kids_remove(kids, i);
        lemma_abs_kids_push(kids.remove(i), Necessity::Optional(kids[i].val()));
        lemma_abs_n_fields(kids[i]);
    }
}
pub proof fn lemma_demote_all_lift(kids: Seq<Necessity<Element<String>>>, names: Seq<String>)
    ensures abs_kids(demote_all_rev(kids, names)) == g_demote_all_rev(abs_kids(kids), names),
    decreases names.len()
{
    if names.len() > 0 {
        lemma_demote_lift(kids, names.last());
        lemma_demote_all_lift(demote(kids, names.last()), names.drop_last());
    }
}
pub proof fn lemma_tag_opt_lift(root: Element<String>, n: String, snap: Map<String, u32>, r: Element<String>)
    requires tag_opt_post(root, n, snap, r),
    ensures abs(r) == g_tag_opt(abs(root), n, snap),
{
    let i = kid_idx(root.children@, n);
    lemma_idx_agree(root.children@, n);
    lemma_abs_kids_index(root.children@);
    lemma_abs_kids_index(r.children@);
    if i >= root.children@.len() {
        assert(r.children@ =~= root.children@);
    } else {
        let x = root.children@[i].val();
        let y = r.children@[i].val();
        lemma_abs_n_fields(root.children@[i]);
        lemma_abs_n_fields(r.children@[i]);
        lemma_demote_all_lift(x.children@, to_optional_names(x.children@, snap));
        lemma_to_optional_lift(x.children@, snap);
        let x2 = GEl { kids: g_demote_all_rev(abs(x).kids, g_to_optional_names(abs(x).kids, snap)), ..abs(x) };
        assert(abs(y) == x2);
        let target = abs_kids(root.children@).update(i, retag(abs_kids(root.children@)[i], x2));
        assert forall|j: int| 0 <= j < r.children@.len() implies abs_n(#[trigger] r.children@[j]) == target[j] by {
            if j != i { assert(r.children@[j] == root.children@[j]); }
        }
        lemma_abs_kids_ext(r.children@, target);
    }
}

/// Vec::contains (assumed std spec A3, stated with eq_spec) agrees with Seq::contains under A1
pub proof fn lemma_contains_eq(s: Seq<String>, x: String)
    requires eq_is_structural::<String>(),
    ensures s.contains(x) <==> (exists|k: int| 0 <= k < s.len() && #[trigger] vstd::std_specs::cmp::PartialEqSpec::eq_spec(&s[k], &x)),
{
    if s.contains(x) {
        let k = choose|k: int| 0 <= k < s.len() && s[k] == x;
        assert(vstd::std_specs::cmp::PartialEqSpec::eq_spec(&s[k], &x));
    }
    if exists|k: int| 0 <= k < s.len() && #[trigger] vstd::std_specs::cmp::PartialEqSpec::eq_spec(&s[k], &x) {
        let k = choose|k: int| 0 <= k < s.len() && #[trigger] vstd::std_specs::cmp::PartialEqSpec::eq_spec(&s[k], &x);
        assert(s[k] == x);
    }
}

// ---- one-event unfoldings of g_build / scan, stated as lemmas so that the exec proof of build_struct only has to
// ---- match arguments instead of unfolding the recursive definitions inside its large context
pub proof fn lemma_abs_set_text(a: Element<String>, b: Element<String>)
    requires
        b.name == a.name, b.text is Some, b.standalone == a.standalone, b.count == a.count,
        b.attributes == a.attributes, b.children == a.children, b.position == a.position,
    ensures abs(b) == (GEl { text_some: true, ..abs(a) }),
{}
pub open spec fn is_ignorable(x: RdItem) -> bool {
    x == RdItem::Ev(AbsEv::Comment) || x == RdItem::Ev(AbsEv::Decl) || x == RdItem::Ev(AbsEv::PI) || x == RdItem::Ev(AbsEv::DocType)
}
pub proof fn lemma_step_skip(s: GEl, p: Seq<RdItem>, k: Seq<String>)
    requires p.len() > 0, is_ignorable(p[0]),
    ensures g_build(s, p, k) == g_build(s, p.drop_first(), k), scan(p) == scan(p.drop_first()),
{}
pub proof fn lemma_step_text(s: GEl, p: Seq<RdItem>, k: Seq<String>, b: Seq<u8>)
    requires p.len() > 0, p[0] == RdItem::Ev(AbsEv::Text(b)) || p[0] == RdItem::Ev(AbsEv::CData(b)), utf8_ok(b),
    ensures g_build(s, p, k) == g_build(GEl { text_some: true, ..s }, p.drop_first(), k), scan(p) == scan(p.drop_first()),
{}
pub proof fn lemma_step_empty(s: GEl, p: Seq<RdItem>, k: Seq<String>, t: Tag)
    requires p.len() > 0, p[0] == RdItem::Ev(AbsEv::Empty(t)), g_tag_ok(t), g_parse_tag(s, t, k, None).0 is Some,
    ensures
        g_build(s, p, k) == g_build(g_tag_opt(g_parse_tag(s, t, k, None).0->Some_0, utf8_str(t.name), Map::empty()), p.drop_first(), g_parse_tag(s, t, k, None).1),
        scan(p) == scan(p.drop_first()),
{}
pub proof fn lemma_step_start(s: GEl, p: Seq<RdItem>, k: Seq<String>, t: Tag)
    requires
        p.len() > 0, p[0] == RdItem::Ev(AbsEv::Start(t)), g_tag_ok(t),
        g_parse_tag(s, t, k, Some(p.drop_first())).0 is Some,
        scan(p.drop_first()).0,
        g_parse_tag(s, t, k, Some(p.drop_first())).2 == scan(p.drop_first()).1,
    ensures
        ({
            let cc = g_count_children(s, utf8_str(t.name));
            let r = g_parse_tag(s, t, k, Some(p.drop_first()));
            let s2 = if cc.1 { g_tag_opt(r.0->Some_0, utf8_str(t.name), cc.0) } else { r.0->Some_0 };
            g_build(s, p, k) == g_build(s2, r.2, r.1) && scan(p) == scan(r.2)
        }),
{
    lemma_scan_shrinks(p.drop_first());
}

// ---- one-element unfoldings of the list folds (loop-step lemmas for count_children / tag_optional_children)
pub proof fn lemma_mand_counts_step(kids: Seq<Necessity<Element<String>>>, i: int)
    requires 0 <= i < kids.len(),
    ensures mand_counts(kids.take(i + 1)) == (if kids[i] is Mandatory { mand_counts(kids.take(i)).insert(kids[i].val().name, kids[i].val().count) } else { mand_counts(kids.take(i)) }),
{
    assert(kids.take(i + 1).drop_last() == kids.take(i));
    assert(kids.take(i + 1).last() == kids[i]);
}
pub proof fn lemma_to_optional_step(kids: Seq<Necessity<Element<String>>>, snap: Map<String, u32>, i: int)
    requires 0 <= i < kids.len(),
    ensures to_optional_names(kids.take(i + 1), snap) == (if demote_rule(kids[i], snap) { to_optional_names(kids.take(i), snap).push(kids[i].val().name) } else { to_optional_names(kids.take(i), snap) }),
{
    assert(kids.take(i + 1).drop_last() == kids.take(i));
    assert(kids.take(i + 1).last() == kids[i]);
}

// ---- broadcast facts that let the two public entry points verify without any hint inside their bodies
/// abs of a freshly created element is the synthetic root of the ghost algorithm
pub broadcast proof fn lemma_abs_fresh(e: Element<String>)
    requires e.children@.len() == 0, e.attributes@.len() == 0, e.text is None, e.count == 1, e.standalone, e.position is None,
    ensures #[trigger] abs(e) == g_root(e.name),
{
    assert(abs_kids(e.children@) =~= Seq::empty());
    assert(e.attributes@ =~= Seq::empty());
}
/// abs of the wrapper extend_struct builds (a fresh element with the previous root as its only, Mandatory, child)
pub broadcast proof fn lemma_abs_wrapper(w: Element<String>, r: Element<String>)
    requires
        w.children@.len() == 1,
        w.children@[0] == Necessity::Mandatory(Element { position: if r.position is None { Some(0usize) } else { r.position }, ..r }),
        w.attributes@.len() == 0, w.text is None, w.count == 1, w.standalone, w.position is None,
    ensures #![trigger abs(w), abs(r)] abs(w) == g_wrap(w.name, abs(r)),
{
    lemma_abs_kids_index(w.children@);
    assert(w.attributes@ =~= Seq::empty());
    let r2 = Element { position: if r.position is None { Some(0usize) } else { r.position }, ..r };
    assert(abs_n(w.children@[0]).val() == abs(r2));
    assert(abs(r2) == GEl { position: r2.position, ..abs(r) });
    assert(abs_kids(w.children@) =~= g_wrap(w.name, abs(r)).kids);
}
/// the ghost children list mirrors the real one, entry by entry
pub broadcast proof fn lemma_abs_kids_mirror(s: Seq<Necessity<Element<String>>>)
    ensures
        #![trigger abs_kids(s)]
        abs_kids(s).len() == s.len(),
        s.len() > 0 ==> abs_kids(s)[0].val() == abs(s[0].val()) && (abs_kids(s)[0] is Mandatory) == (s[0] is Mandatory),
{
    lemma_abs_kids_index(s);
    if s.len() > 0 { lemma_abs_n_fields(s[0]); }
}
/// exec view of lemma_build_names: whatever tree a successful build below `root` yields, it still has a child for every
/// child name of `root` (building marks optional, merges and adds; it never drops a name)
pub proof fn lemma_names_survive(root: Element<String>, p: Seq<RdItem>)
    ensures
        forall|res: Element<String>, m: String|
            g_build(abs(root), p, Seq::empty()).0 == Some(abs(res)) && kid_idx(root.children@, m) < root.children@.len()
                ==> #[trigger] kid_idx(res.children@, m) < res.children@.len(),
{
    assert forall|res: Element<String>, m: String|
        g_build(abs(root), p, Seq::empty()).0 == Some(abs(res)) && kid_idx(root.children@, m) < root.children@.len()
            implies #[trigger] kid_idx(res.children@, m) < res.children@.len() by {
        lemma_build_names(abs(root), p, Seq::empty(), m);
        lemma_idx_agree(root.children@, m);
        lemma_idx_agree(res.children@, m);
        lemma_abs_kids_index(root.children@);
        lemma_abs_kids_index(res.children@);
    }
}
pub broadcast group group_entry_points {
    lemma_abs_fresh,
    lemma_abs_wrapper,
    lemma_abs_kids_mirror,
}

// ---- C08, second half: WHICH error.  The kind of the first fault in stream order.
pub ghost enum EK { Fine, Syntax, Attr, Utf8, NoElement }
pub open spec fn attrs_kind(a: Seq<Option<Seq<u8>>>) -> EK
    decreases a.len()
{
    if a.len() == 0 { EK::Fine } else {
        match a[0] {
            None => EK::Attr,
            Some(k) => if !utf8_ok(k) { EK::Utf8 } else { attrs_kind(a.drop_first()) },
        }
    }
}
pub open spec fn tag_kind(t: Tag) -> EK { if !utf8_ok(t.name) { EK::Utf8 } else { attrs_kind(t.attrs) } }
pub open spec fn scan_kind(p: Seq<RdItem>) -> EK
    decreases p.len()
{
    if p.len() == 0 { EK::Fine } else {
        let rest = p.drop_first();
        match p[0] {
            RdItem::Err => EK::Syntax,
            RdItem::Ev(AbsEv::Eof) => EK::Fine,
            RdItem::Ev(AbsEv::End) => EK::Fine,
            RdItem::Ev(AbsEv::Comment) => scan_kind(rest),
            RdItem::Ev(AbsEv::Decl) => scan_kind(rest),
            RdItem::Ev(AbsEv::PI) => scan_kind(rest),
            RdItem::Ev(AbsEv::DocType) => scan_kind(rest),
            RdItem::Ev(AbsEv::Text(b)) => if utf8_ok(b) { scan_kind(rest) } else { EK::Utf8 },
            RdItem::Ev(AbsEv::CData(b)) => if utf8_ok(b) { scan_kind(rest) } else { EK::Utf8 },
            RdItem::Ev(AbsEv::Empty(t)) => if tag_kind(t) is Fine { scan_kind(rest) } else { tag_kind(t) },
            RdItem::Ev(AbsEv::Start(t)) => if !(tag_kind(t) is Fine) { tag_kind(t) } else {
                let inner = scan(rest);
                if !inner.0 { scan_kind(rest) } else if inner.1.len() < p.len() { scan_kind(inner.1) } else { EK::Fine }
            },
        }
    }
}
pub proof fn lemma_attrs_kind(a: Seq<Option<Seq<u8>>>)
    ensures g_attrs_ok(a) <==> attrs_kind(a) is Fine, !(attrs_kind(a) is Syntax) && !(attrs_kind(a) is NoElement),
    decreases a.len()
{
    if a.len() > 0 {
        lemma_attrs_ok_step(a);
        lemma_attrs_kind(a.drop_first());
    }
}
pub proof fn lemma_attrs_kind_step(a: Seq<Option<Seq<u8>>>)
    requires a.len() > 0,
    ensures attrs_kind(a) == (match a[0] { None => EK::Attr, Some(k) => if !utf8_ok(k) { EK::Utf8 } else { attrs_kind(a.drop_first()) } }),
{}
pub proof fn lemma_tag_kind(t: Tag)
    ensures g_tag_ok(t) <==> tag_kind(t) is Fine, !(tag_kind(t) is Syntax) && !(tag_kind(t) is NoElement),
{
    lemma_attrs_kind(t.attrs);
}
/// the verdict oracle and the kind oracle agree
pub proof fn lemma_scan_kind(p: Seq<RdItem>)
    ensures scan(p).0 <==> scan_kind(p) is Fine, !(scan_kind(p) is NoElement),
    decreases p.len()
{
    if p.len() > 0 {
        let rest = p.drop_first();
        match p[0] {
            RdItem::Ev(AbsEv::Comment) | RdItem::Ev(AbsEv::Decl) | RdItem::Ev(AbsEv::PI) | RdItem::Ev(AbsEv::DocType) => { lemma_scan_kind(rest); },
            RdItem::Ev(AbsEv::Text(b)) | RdItem::Ev(AbsEv::CData(b)) => { lemma_scan_kind(rest); },
            RdItem::Ev(AbsEv::Empty(t)) => { lemma_tag_kind(t); lemma_scan_kind(rest); },
            RdItem::Ev(AbsEv::Start(t)) => {
                lemma_tag_kind(t);
                lemma_scan_kind(rest);
                lemma_scan_shrinks(rest);
                if g_tag_ok(t) && scan(rest).0 { lemma_scan_kind(scan(rest).1); }
            },
            _ => {},
        }
    }
}
/// one-event unfoldings of scan_kind (companions of lemma_step_*)
pub proof fn lemma_kind_skip(p: Seq<RdItem>)
    requires p.len() > 0, is_ignorable(p[0]),
    ensures scan_kind(p) == scan_kind(p.drop_first()),
{}
pub proof fn lemma_kind_text(p: Seq<RdItem>, b: Seq<u8>)
    requires p.len() > 0, p[0] == RdItem::Ev(AbsEv::Text(b)) || p[0] == RdItem::Ev(AbsEv::CData(b)),
    ensures scan_kind(p) == (if utf8_ok(b) { scan_kind(p.drop_first()) } else { EK::Utf8 }),
{}
pub proof fn lemma_kind_empty(p: Seq<RdItem>, t: Tag)
    requires p.len() > 0, p[0] == RdItem::Ev(AbsEv::Empty(t)),
    ensures scan_kind(p) == (if tag_kind(t) is Fine { scan_kind(p.drop_first()) } else { tag_kind(t) }),
{}
pub proof fn lemma_kind_start(p: Seq<RdItem>, t: Tag)
    requires p.len() > 0, p[0] == RdItem::Ev(AbsEv::Start(t)),
    ensures
        !(tag_kind(t) is Fine) ==> scan_kind(p) == tag_kind(t),
        tag_kind(t) is Fine && !scan(p.drop_first()).0 ==> scan_kind(p) == scan_kind(p.drop_first()),
        tag_kind(t) is Fine && scan(p.drop_first()).0 ==> scan_kind(p) == scan_kind(scan(p.drop_first()).1),
{
    lemma_scan_shrinks(p.drop_first());
}

} // verus!
