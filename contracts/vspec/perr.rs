//! The only spec item that mentions a type defined in parser.rs (kept apart so that the properties that do not depend
//! on the parser can still be verified when parser.rs has to be left un-annotated).
#![allow(unused_imports)]
use vstd::prelude::*;
use super::*;
verus! {

pub open spec fn err_kind(e: crate::parser::ParserError) -> EK {
    match e {
        crate::parser::ParserError::QuickXmlError(_, _) => EK::Syntax,
        crate::parser::ParserError::AttrError(_) => EK::Attr,
        crate::parser::ParserError::FromUtf8Error(_) => EK::Utf8,
        crate::parser::ParserError::ParsingError(_) => EK::NoElement,
    }
}

} // verus!
