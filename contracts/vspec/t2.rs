//! Layer T2 (C03 / C01 at statement level, one occurrence step): what the ghost algorithm g_build does to the children
//! of the node it builds below, in terms of the element names that occur at that nesting level of the stream.
//! Independent of the repository's code; connected to it by T1.
#![allow(unused_imports)]
use vstd::prelude::*;
use crate::element::Element;
use crate::necessity::Necessity;
use super::*;
verus! {

pub open spec fn g_has(kids: Seq<Necessity<GEl>>, m: String) -> bool { g_idx(kids, m) < kids.len() }
pub open spec fn g_kid(kids: Seq<Necessity<GEl>>, m: String) -> Necessity<GEl> { kids[g_idx(kids, m)] }

/// in a duplicate-free list the entry called `m` is the one at any index that carries that name
pub proof fn lemma_kid_is(kids: Seq<Necessity<GEl>>, m: String, j: int)
    requires g_uniq(kids), 0 <= j < kids.len(), kids[j].val().name == m,
    ensures g_has(kids, m), g_idx(kids, m) == j, g_kid(kids, m) == kids[j],
{
    assert forall|a: int| 0 <= a < j implies (#[trigger] kids[a]).val().name != m by {
        assert(kids[a].val().name != kids[j].val().name);
    }
    lemma_g_idx_at(kids, m, j);
}
pub proof fn lemma_kid_none(kids: Seq<Necessity<GEl>>, m: String)
    requires forall|j: int| 0 <= j < kids.len() ==> (#[trigger] kids[j]).val().name != m,
    ensures !g_has(kids, m),
{
    lemma_g_idx_absent(kids, m);
}
pub proof fn lemma_has_witness(kids: Seq<Necessity<GEl>>, m: String)
    ensures
        g_has(kids, m) ==> 0 <= g_idx(kids, m) < kids.len() && kids[g_idx(kids, m)].val().name == m,
        !g_has(kids, m) ==> forall|j: int| 0 <= j < kids.len() ==> (#[trigger] kids[j]).val().name != m,
{
    lemma_g_idx(kids, m);
}

/// H1: remove the entry called n (if any) and push v (called n) at the end
pub proof fn lemma_kid_remove_push(kids: Seq<Necessity<GEl>>, n: String, v: Necessity<GEl>, m: String)
    requires g_uniq(kids), v.val().name == n,
    ensures
        ({
            let i = g_idx(kids, n);
            let rk = if i < kids.len() { kids.remove(i) } else { kids };
            let k2 = rk.push(v);
            &&& g_uniq(k2)
            &&& (m != n ==> g_has(k2, m) == g_has(kids, m) && (g_has(kids, m) ==> g_kid(k2, m) == g_kid(kids, m)))
            &&& (m == n ==> g_has(k2, m) && g_kid(k2, m) == v)
        }),
{
    let i = g_idx(kids, n);
    lemma_g_idx(kids, n);
    let rk = if i < kids.len() { kids.remove(i) } else { kids };
    let k2 = rk.push(v);
    // every entry of rk is an entry of kids with another name than n
    assert forall|a: int| 0 <= a < rk.len() implies (#[trigger] rk[a]).val().name != n
        && rk[a] == kids[if i < kids.len() && a >= i { a + 1 } else { a }] by {
        if i < kids.len() {
            let ka = if a < i { a } else { a + 1 };
            assert(rk[a] == kids[ka]);
            if ka < i { assert(kids[ka].val().name != kids[i].val().name); } else { assert(kids[i].val().name != kids[ka].val().name); }
        }
    }
    assert(g_uniq(k2)) by {
        assert forall|a: int, b: int| 0 <= a < b < k2.len() implies (#[trigger] k2[a]).val().name != (#[trigger] k2[b]).val().name by {
            assert(k2[a] == rk[a]);
            if b < rk.len() {
                assert(k2[b] == rk[b]);
                let ka = if i < kids.len() && a >= i { a + 1 } else { a };
                let kb = if i < kids.len() && b >= i { b + 1 } else { b };
                assert(rk[a] == kids[ka] && rk[b] == kids[kb]);
                assert(kids[ka].val().name != kids[kb].val().name);
            } else {
                assert(k2[b] == v);
            }
        }
    }
    if m == n {
        assert(k2[rk.len() as int] == v);
        lemma_kid_is(k2, m, rk.len() as int);
    } else {
        lemma_has_witness(kids, m);
        if g_has(kids, m) {
            let j = g_idx(kids, m);
            assert(j != i) by { if i < kids.len() { assert(kids[i].val().name == n); } }
            let a = if i < kids.len() && j > i { j - 1 } else { j };
            assert(rk[a] == kids[j]);
            assert(k2[a] == rk[a]);
            lemma_kid_is(k2, m, a);
        } else {
            assert forall|a: int| 0 <= a < k2.len() implies (#[trigger] k2[a]).val().name != m by {
                if a < rk.len() {
                    assert(k2[a] == rk[a]);
                    let ka = if i < kids.len() && a >= i { a + 1 } else { a };
                    assert(rk[a] == kids[ka]);
                } else { assert(k2[a] == v); }
            }
            lemma_kid_none(k2, m);
        }
    }
}

/// H2: replace the entry at index i by one with the same name
pub proof fn lemma_kid_update(kids: Seq<Necessity<GEl>>, i: int, v: Necessity<GEl>, m: String)
    requires g_uniq(kids), 0 <= i < kids.len(), v.val().name == kids[i].val().name,
    ensures
        g_uniq(kids.update(i, v)),
        g_has(kids.update(i, v), m) == g_has(kids, m),
        g_has(kids, m) ==> g_kid(kids.update(i, v), m) == (if m == kids[i].val().name { v } else { g_kid(kids, m) }),
{
    let k2 = kids.update(i, v);
    assert forall|a: int| 0 <= a < k2.len() implies (#[trigger] k2[a]).val().name == kids[a].val().name by {}
    assert(g_uniq(k2)) by {
        assert forall|a: int, b: int| 0 <= a < b < k2.len() implies (#[trigger] k2[a]).val().name != (#[trigger] k2[b]).val().name by {
            assert(k2[a].val().name == kids[a].val().name && k2[b].val().name == kids[b].val().name);
        }
    }
    lemma_has_witness(kids, m);
    if g_has(kids, m) {
        let j = g_idx(kids, m);
        assert(k2[j].val().name == m);
        lemma_kid_is(k2, m, j);
        if m == kids[i].val().name { lemma_kid_is(kids, m, i); }
    } else {
        assert forall|a: int| 0 <= a < k2.len() implies (#[trigger] k2[a]).val().name != m by { assert(k2[a].val().name == kids[a].val().name); }
        lemma_kid_none(k2, m);
    }
}

/// H3: demotion keeps every child (as a value) and turns exactly the named one Optional
pub proof fn lemma_demote_char(kids: Seq<Necessity<GEl>>, name: String, m: String)
    requires g_uniq(kids),
    ensures
        g_uniq(g_demote(kids, name)),
        g_has(g_demote(kids, name), m) == g_has(kids, m),
        g_has(kids, m) ==> g_kid(g_demote(kids, name), m).val() == g_kid(kids, m).val()
            && ((g_kid(g_demote(kids, name), m) is Mandatory) == (g_kid(kids, m) is Mandatory && m != name)),
{
    let i = g_idx(kids, name);
    lemma_g_idx(kids, name);
    if i < kids.len() {
        lemma_kid_remove_push(kids, name, Necessity::Optional(kids[i].val()), m);
        if m == name { lemma_kid_is(kids, m, i); }
    }
}
pub proof fn lemma_demote_all_char(kids: Seq<Necessity<GEl>>, names: Seq<String>, m: String)
    requires g_uniq(kids),
    ensures
        g_uniq(g_demote_all_rev(kids, names)),
        g_has(g_demote_all_rev(kids, names), m) == g_has(kids, m),
        g_has(kids, m) ==> g_kid(g_demote_all_rev(kids, names), m).val() == g_kid(kids, m).val()
            && ((g_kid(g_demote_all_rev(kids, names), m) is Mandatory) == (g_kid(kids, m) is Mandatory && !names.contains(m))),
    decreases names.len()
{
    if names.len() > 0 {
        let k1 = g_demote(kids, names.last());
        lemma_demote_char(kids, names.last(), m);
        lemma_demote_all_char(k1, names.drop_last(), m);
        assert(names.contains(m) == (names.drop_last().contains(m) || names.last() == m)) by {
            if names.contains(m) {
                let w = choose|w: int| 0 <= w < names.len() && names[w] == m;
                if w < names.len() - 1 { assert(names.drop_last()[w] == m); }
            }
            if names.drop_last().contains(m) {
                let w = choose|w: int| 0 <= w < names.drop_last().len() && names.drop_last()[w] == m;
                assert(names[w] == m);
            }
            if names.last() == m { assert(names[names.len() - 1] == m); }
        }
    }
}
/// H4: the names selected for demotion are exactly the children the rule selects
pub proof fn lemma_to_optional_char(kids: Seq<Necessity<GEl>>, snap: Map<String, u32>, m: String)
    requires g_uniq(kids),
    ensures g_to_optional_names(kids, snap).contains(m) == (g_has(kids, m) && g_demote_rule(g_kid(kids, m), snap)),
    decreases kids.len()
{
    if kids.len() == 0 {
        assert(!g_to_optional_names(kids, snap).contains(m));
    } else {
        let pre = kids.drop_last();
        let last = kids.last();
        assert(g_uniq(pre)) by {
            assert forall|i: int, j: int| 0 <= i < j < pre.len() implies (#[trigger] pre[i]).val().name != (#[trigger] pre[j]).val().name by {
                assert(pre[i] == kids[i] && pre[j] == kids[j]);
            }
        }
        lemma_to_optional_char(pre, snap, m);
        let pn = g_to_optional_names(pre, snap);
        let all = g_to_optional_names(kids, snap);
        lemma_has_witness(pre, m);
        lemma_has_witness(kids, m);
        if g_has(pre, m) {
            let j = g_idx(pre, m);
            assert(pre[j] == kids[j]);
            lemma_kid_is(kids, m, j);
            assert(last.val().name != m) by { assert(kids[j].val().name != kids[kids.len() - 1].val().name); }
        } else if last.val().name == m {
            lemma_kid_is(kids, m, kids.len() - 1);
        } else {
            assert forall|a: int| 0 <= a < kids.len() implies (#[trigger] kids[a]).val().name != m by {
                if a < pre.len() { assert(pre[a] == kids[a]); }
            }
            lemma_kid_none(kids, m);
        }
        if g_demote_rule(last, snap) {
            assert(all == pn.push(last.val().name));
            assert(all.contains(m) == (pn.contains(m) || last.val().name == m)) by {
                if pn.contains(m) { let w = choose|w: int| 0 <= w < pn.len() && pn[w] == m; assert(all[w] == m); }
                if last.val().name == m { assert(all[all.len() - 1] == m); }
                if all.contains(m) {
                    let w = choose|w: int| 0 <= w < all.len() && all[w] == m;
                    if w < pn.len() { assert(pn[w] == m); }
                }
            }
        } else {
            assert(all == pn);
        }
    }
}

// ---------------------------------------------------------------- effect of one attach / tag_opt step on the children list
pub proof fn lemma_attach_kids(s: GEl, n: String, c2: GEl, m: String)
    requires g_wf(s), c2.name == n,
    ensures
        ({
            let a = g_attach(s, n, c2);
            &&& g_uniq(a.kids)
            &&& (m != n ==> g_has(a.kids, m) == g_has(s.kids, m) && (g_has(s.kids, m) ==> g_kid(a.kids, m) == g_kid(s.kids, m)))
            &&& (m == n ==> g_has(a.kids, m) && g_kid(a.kids, m) is Mandatory && g_kid(a.kids, m).val().name == n
                    && g_kid(a.kids, m).val().count == c2.count && g_kid(a.kids, m).val().standalone == c2.standalone
                    && g_kid(a.kids, m).val().kids == c2.kids && g_kid(a.kids, m).val().attrs == c2.attrs && g_kid(a.kids, m).val().text_some == c2.text_some)
        }),
{
    let rk = g_rest_kids(s, n);
    let pushed = GEl { position: if c2.position is None { Some(rk.len() as usize) } else { c2.position }, ..c2 };
    lemma_kid_remove_push(s.kids, n, Necessity::Mandatory(pushed), m);
}
pub proof fn lemma_tag_opt_kids(s: GEl, n: String, snap: Map<String, u32>, m: String)
    requires g_wf(s),
    ensures
        ({
            let o = g_tag_opt(s, n, snap);
            &&& g_uniq(o.kids)
            &&& g_has(o.kids, m) == g_has(s.kids, m)
            &&& (m != n && g_has(s.kids, m) ==> g_kid(o.kids, m) == g_kid(s.kids, m))
            &&& (m == n && g_has(s.kids, m) ==> {
                    let x = g_kid(s.kids, m).val();
                    let y = g_kid(o.kids, m).val();
                    &&& (g_kid(o.kids, m) is Mandatory) == (g_kid(s.kids, m) is Mandatory)
                    &&& y == (GEl { kids: g_demote_all_rev(x.kids, g_to_optional_names(x.kids, snap)), ..x })
                })
        }),
{
    let i = g_idx(s.kids, n);
    lemma_g_idx(s.kids, n);
    if i < s.kids.len() {
        let x = s.kids[i].val();
        let x2 = GEl { kids: g_demote_all_rev(x.kids, g_to_optional_names(x.kids, snap)), ..x };
        assert(retag(s.kids[i], x2).val() == x2);
        lemma_kid_update(s.kids, i, retag(s.kids[i], x2), m);
        if m == n { lemma_kid_is(s.kids, n, i); }
    }
}

// ---------------------------------------------------------------- the stream consumed by g_build is the one scan() consumes
pub proof fn lemma_build_rest_scan(s: GEl, p: Seq<RdItem>, known: Seq<String>)
    ensures g_build(s, p, known).0 is Some ==> scan(p).0 && g_build(s, p, known).1 == scan(p).1,
    decreases p.len()
{
    if p.len() > 0 {
        let rest = p.drop_first();
        match p[0] {
            RdItem::Ev(AbsEv::Comment) | RdItem::Ev(AbsEv::Decl) | RdItem::Ev(AbsEv::PI) | RdItem::Ev(AbsEv::DocType) => { lemma_build_rest_scan(s, rest, known); },
            RdItem::Ev(AbsEv::Text(b)) | RdItem::Ev(AbsEv::CData(b)) => { if utf8_ok(b) { lemma_build_rest_scan(GEl { text_some: true, ..s }, rest, known); } },
            RdItem::Ev(AbsEv::Empty(t)) => {
                if g_tag_ok(t) {
                    let r = g_parse_tag(s, t, known, None);
                    if r.0 is Some { lemma_build_rest_scan(g_tag_opt(r.0->Some_0, utf8_str(t.name), Map::empty()), rest, r.1); }
                }
            },
            RdItem::Ev(AbsEv::Start(t)) => {
                if g_tag_ok(t) {
                    let n = utf8_str(t.name);
                    let cc = g_count_children(s, n);
                    lemma_parse_tag_unfold(s, t, known, Some(rest));
                    let base = g_base(s, t, known);
                    lemma_build_rest_scan(base, rest, Seq::empty());
                    let inner = g_build(base, rest, Seq::empty());
                    if inner.0 is Some {
                        let s1 = g_attach(s, n, inner.0->Some_0);
                        let s2 = if cc.1 { g_tag_opt(s1, n, cc.0) } else { s1 };
                        if inner.1.len() < p.len() { lemma_build_rest_scan(s2, inner.1, g_known2(known, n)); }
                    }
                }
            },
            _ => {},
        }
    }
}

// ---------------------------------------------------------------- what occurs at one nesting level of the stream
/// the Start/Empty tags at this nesting level, in order (nested content is skipped with scan)
pub open spec fn level_tags(p: Seq<RdItem>) -> Seq<Tag>
    decreases p.len()
{
    if p.len() == 0 { Seq::empty() } else {
        let rest = p.drop_first();
        match p[0] {
            RdItem::Err => Seq::empty(),
            RdItem::Ev(AbsEv::Eof) => Seq::empty(),
            RdItem::Ev(AbsEv::End) => Seq::empty(),
            RdItem::Ev(AbsEv::Empty(t)) => seq![t] + level_tags(rest),
            RdItem::Ev(AbsEv::Start(t)) => if scan(rest).1.len() < p.len() { seq![t] + level_tags(scan(rest).1) } else { seq![t] },
            _ => level_tags(rest),
        }
    }
}
/// some text or CDATA node occurs at this nesting level
pub open spec fn level_text(p: Seq<RdItem>) -> bool
    decreases p.len()
{
    if p.len() == 0 { false } else {
        let rest = p.drop_first();
        match p[0] {
            RdItem::Err => false,
            RdItem::Ev(AbsEv::Eof) => false,
            RdItem::Ev(AbsEv::End) => false,
            RdItem::Ev(AbsEv::Text(b)) => true,
            RdItem::Ev(AbsEv::CData(b)) => true,
            RdItem::Ev(AbsEv::Start(t)) => if scan(rest).1.len() < p.len() { level_text(scan(rest).1) } else { false },
            _ => level_text(rest),
        }
    }
}
/// number of tags called m
pub open spec fn occ(ts: Seq<Tag>, m: String) -> nat
    decreases ts.len()
{
    if ts.len() == 0 { 0 } else { (if utf8_str(ts[0].name) == m { 1nat } else { 0nat }) + occ(ts.drop_first(), m) }
}
pub proof fn lemma_occ_cons(t: Tag, ts: Seq<Tag>, m: String)
    ensures occ(seq![t] + ts, m) == (if utf8_str(t.name) == m { 1nat } else { 0nat }) + occ(ts, m),
{
    assert((seq![t] + ts).drop_first() =~= ts);
}
/// the counter after at least one increment: strictly larger, or saturated
pub open spec fn cnt_after(old: u32, new: u32) -> bool { new > old || new == u32::MAX }

pub proof fn lemma_known2(known: Seq<String>, n: String, m: String)
    ensures g_known2(known, n).contains(m) == (known.contains(m) || m == n),
{
    let k2 = g_known2(known, n);
    if known.contains(n) {
        if m == n { assert(k2.contains(m)); }
    } else {
        assert(k2 == known.push(n));
        if known.contains(m) { let w = choose|w: int| 0 <= w < known.len() && known[w] == m; assert(k2[w] == m); }
        if m == n { assert(k2[k2.len() - 1] == m); }
        if k2.contains(m) {
            let w = choose|w: int| 0 <= w < k2.len() && k2[w] == m;
            if w < known.len() { assert(known[w] == m); }
        }
    }
}

// ---------------------------------------------------------------- THE LEVEL LEMMA
/// what a successful g_build(s, p, known) = w did, for the child name m, in terms of the tags at this level of p
pub open spec fn level_post(s: GEl, w: GEl, p: Seq<RdItem>, known: Seq<String>, m: String) -> bool {
    let o = occ(level_tags(p), m);
    &&& w.name == s.name && w.attrs == s.attrs && w.count == s.count && w.standalone == s.standalone && w.position == s.position
    &&& w.text_some == (s.text_some || level_text(p))
    &&& g_wf(w)
    &&& g_has(w.kids, m) == (g_has(s.kids, m) || o > 0)
    &&& (o == 0 && g_has(s.kids, m) ==> g_kid(w.kids, m) == g_kid(s.kids, m))
    &&& (g_has(s.kids, m) ==> g_kid(w.kids, m).val().count >= g_kid(s.kids, m).val().count)
    &&& (o > 0 ==> {
            &&& g_kid(w.kids, m) is Mandatory
            &&& (g_has(s.kids, m) ==> cnt_after(g_kid(s.kids, m).val().count, g_kid(w.kids, m).val().count))
            &&& g_kid(w.kids, m).val().standalone == ((g_has(s.kids, m) ==> g_kid(s.kids, m).val().standalone) && !known.contains(m) && o <= 1)
        })
}
pub proof fn lemma_level(s: GEl, p: Seq<RdItem>, known: Seq<String>, m: String)
    requires g_wf(s),
    ensures g_build(s, p, known).0 is Some ==> level_post(s, g_build(s, p, known).0->Some_0, p, known, m),
    decreases p.len()
{
    if g_build(s, p, known).0 is Some && p.len() > 0 {
        let w = g_build(s, p, known).0->Some_0;
        let rest = p.drop_first();
        match p[0] {
            RdItem::Ev(AbsEv::Comment) | RdItem::Ev(AbsEv::Decl) | RdItem::Ev(AbsEv::PI) | RdItem::Ev(AbsEv::DocType) => { lemma_level(s, rest, known, m); },
            RdItem::Ev(AbsEv::Text(b)) | RdItem::Ev(AbsEv::CData(b)) => {
                let s1 = GEl { text_some: true, ..s };
                assert(g_wf(s1));
                lemma_level(s1, rest, known, m);
            },
            RdItem::Ev(AbsEv::Empty(t)) => {
                let n = utf8_str(t.name);
                lemma_parse_tag_unfold(s, t, known, None);
                lemma_base_wf(s, t, known);
                let base = g_base(s, t, known);
                let s1 = g_attach(s, n, base);
                let k2 = g_known2(known, n);
                lemma_attach_wf(s, n, base);
                lemma_tag_opt_wf(s1, n, Map::empty());
                let s2 = g_tag_opt(s1, n, Map::empty());
                assert(g_build(s, p, known) == g_build(s2, rest, k2));
                lemma_level(s2, rest, k2, m);
                lemma_attach_kids(s, n, base, m);
                lemma_tag_opt_kids(s1, n, Map::empty(), m);
                lemma_known2(known, n, m);
                lemma_occ_cons(t, level_tags(rest), m);
                lemma_g_idx(s.kids, n);
                if m == n && g_has(s.kids, n) { lemma_kid_is(s.kids, n, g_idx(s.kids, n)); }
            },
            RdItem::Ev(AbsEv::Start(t)) => {
                let n = utf8_str(t.name);
                let cc = g_count_children(s, n);
                lemma_parse_tag_unfold(s, t, known, Some(rest));
                lemma_base_wf(s, t, known);
                let base = g_base(s, t, known);
                let inner = g_build(base, rest, Seq::empty());
                assert(inner.0 is Some);
                let c2 = inner.0->Some_0;
                lemma_build_wf(base, rest, Seq::empty());
                lemma_build_rest_scan(base, rest, Seq::empty());
                lemma_level(base, rest, Seq::empty(), m);   // only for: the content keeps the node's own count / standalone / text flags
                let s1 = g_attach(s, n, c2);
                let k2 = g_known2(known, n);
                lemma_attach_wf(s, n, c2);
                lemma_tag_opt_wf(s1, n, cc.0);
                let s2 = if cc.1 { g_tag_opt(s1, n, cc.0) } else { s1 };
                assert(inner.1.len() < p.len());
                assert(g_build(s, p, known) == g_build(s2, inner.1, k2));
                lemma_level(s2, inner.1, k2, m);
                lemma_attach_kids(s, n, c2, m);
                lemma_tag_opt_kids(s1, n, cc.0, m);
                lemma_known2(known, n, m);
                lemma_occ_cons(t, level_tags(inner.1), m);
                lemma_g_idx(s.kids, n);
                if m == n && g_has(s.kids, n) { lemma_kid_is(s.kids, n, g_idx(s.kids, n)); }
            },
            _ => {},
        }
    }
}

// ---------------------------------------------------------------- THE OCCURRENCE-STEP THEOREM (C03 exactness / C01 soundness, one step)
/// tree after absorbing one occurrence `<n ..> content </n>` below s (exactly what the Start arm of g_build does before it continues)
pub open spec fn g_occ_start(s: GEl, t: Tag, known: Seq<String>, content: Seq<RdItem>) -> Option<GEl> {
    let n = utf8_str(t.name);
    let cc = g_count_children(s, n);
    match g_parse_tag(s, t, known, Some(content)).0 {
        None => None,
        Some(s1) => Some(if cc.1 { g_tag_opt(s1, n, cc.0) } else { s1 }),
    }
}
/// tree after absorbing one occurrence `<n ../>` below s (the Empty arm of g_build)
pub open spec fn g_occ_empty(s: GEl, t: Tag, known: Seq<String>) -> Option<GEl> {
    match g_parse_tag(s, t, known, None).0 {
        None => None,
        Some(s1) => Some(g_tag_opt(s1, utf8_str(t.name), Map::empty())),
    }
}
pub open spec fn counts_below_max(kids: Seq<Necessity<GEl>>) -> bool {
    forall|i: int| 0 <= i < kids.len() ==> (#[trigger] kids[i]).val().count < u32::MAX
}
/// statement-level description of the node y (= the child called n after the step) in terms of the node x it was before
/// (if any) and of what occurs in this occurrence: o = number of children called m, `text` = character data present
pub open spec fn occ_post(x: Option<GEl>, y: GEl, t: Tag, o: nat, text: bool, m: String) -> bool {
    let xk = match x { Some(e) => e.kids, None => Seq::empty() };
    &&& y.name == utf8_str(t.name)
    &&& y.text_some == ((x is Some && x->Some_0.text_some) || text)                               // text  <=> some occurrence has character data
    &&& y.attrs == (match x { Some(e) => spec_merge(e.attrs, mand_decode(t.attrs)), None => mand_decode(t.attrs) })
    &&& g_uniq(y.kids)
    &&& g_has(y.kids, m) == (g_has(xk, m) || o > 0)                                               // one entry per name seen, nothing else
    &&& (g_has(y.kids, m) ==> {
            // Mandatory <=> present in this occurrence and (first occurrence of the parent, or Mandatory so far)
            &&& (counts_below_max(xk) ==> (g_kid(y.kids, m) is Mandatory) == (o > 0 && (x is None || (g_has(xk, m) && g_kid(xk, m) is Mandatory))))
            // soundness direction without the counter assumption: Mandatory ==> present in this occurrence
            &&& (g_kid(y.kids, m) is Mandatory ==> o > 0 && (x is None || (g_has(xk, m) && g_kid(xk, m) is Mandatory)))
            // single <=> single so far and at most once in this occurrence
            &&& g_kid(y.kids, m).val().standalone == ((g_has(xk, m) ==> g_kid(xk, m).val().standalone) && o <= 1)
            // the occurrence counter never decreases
            &&& (g_has(xk, m) ==> g_kid(y.kids, m).val().count >= g_kid(xk, m).val().count)
        })
}
pub proof fn lemma_snapshot_char(kids: Seq<Necessity<GEl>>, m: String)
    requires g_uniq(kids),
    ensures
        g_mand_counts(kids).contains_key(m) == (g_has(kids, m) && g_kid(kids, m) is Mandatory),
        g_mand_counts(kids).contains_key(m) ==> g_mand_counts(kids)[m] == g_kid(kids, m).val().count,
{
    lemma_mand_counts_char(kids);
    lemma_has_witness(kids, m);
    if g_has(kids, m) {
        let k = g_idx(kids, m);
        assert(kids[k].val().name == m);
    } else if g_mand_counts(kids).contains_key(m) {
        let k = choose|k: int| 0 <= k < kids.len() && (#[trigger] kids[k]).val().name == m;
        assert(false);
    }
}
pub proof fn theorem_occurrence_start(s: GEl, t: Tag, known: Seq<String>, content: Seq<RdItem>, m: String)
    requires g_wf(s), g_tag_ok(t),
    ensures
        g_occ_start(s, t, known, content) is Some ==> ({
            let n = utf8_str(t.name);
            let s2 = g_occ_start(s, t, known, content)->Some_0;
            let x = if g_has(s.kids, n) { Some(g_kid(s.kids, n).val()) } else { None::<GEl> };
            &&& g_wf(s2)
            &&& g_has(s2.kids, n)
            &&& occ_post(x, g_kid(s2.kids, n).val(), t, occ(level_tags(content), m), level_text(content), m)
        }),
{
    if g_occ_start(s, t, known, content) is Some {
        let n = utf8_str(t.name);
        let cc = g_count_children(s, n);
        lemma_parse_tag_unfold(s, t, known, Some(content));
        lemma_base_wf(s, t, known);
        lemma_g_idx(s.kids, n);
        let base = g_base(s, t, known);
        let inner = g_build(base, content, Seq::empty());
        assert(inner.0 is Some);
        let c2 = inner.0->Some_0;
        lemma_build_wf(base, content, Seq::empty());
        lemma_level(base, content, Seq::empty(), m);
        assert(level_post(base, c2, content, Seq::empty(), m));
        let s1 = g_attach(s, n, c2);
        assert(g_parse_tag(s, t, known, Some(content)).0 == Some(s1));
        lemma_attach_wf(s, n, c2);
        lemma_attach_kids(s, n, c2, n);
        let x1 = g_kid(s1.kids, n).val();
        assert(x1.kids == c2.kids && x1.attrs == c2.attrs && x1.text_some == c2.text_some && x1.name == n);
        lemma_tag_opt_wf(s1, n, cc.0);
        lemma_tag_opt_kids(s1, n, cc.0, n);
        let o = occ(level_tags(content), m);
        let txt = level_text(content);
        assert(!Seq::<String>::empty().contains(m));
        let s2 = g_occ_start(s, t, known, content)->Some_0;
        assert(s2 == (if cc.1 { g_tag_opt(s1, n, cc.0) } else { s1 }));
        let y = g_kid(s2.kids, n).val();
        if g_has(s.kids, n) {
            let i = g_idx(s.kids, n);
            let x = s.kids[i].val();
            assert(g_kid(s.kids, n).val() == x);
            assert(g_wf(x));
            assert(base.kids == x.kids && base.text_some == x.text_some && base.attrs == spec_merge(x.attrs, mand_decode(t.attrs)));
            let snap = g_mand_counts(x.kids);
            assert(cc.0 == snap && cc.1);
            let names = g_to_optional_names(c2.kids, snap);
            assert(y == (GEl { kids: g_demote_all_rev(x1.kids, g_to_optional_names(x1.kids, snap)), ..x1 }));
            assert(y.kids == g_demote_all_rev(c2.kids, names));
            lemma_demote_all_char(c2.kids, names, m);
            lemma_to_optional_char(c2.kids, snap, m);
            lemma_snapshot_char(x.kids, m);
            lemma_has_witness(x.kids, m);
            if g_has(x.kids, m) && counts_below_max(x.kids) {
                assert(x.kids[g_idx(x.kids, m)].val().count < u32::MAX);
            }
            assert(g_has(y.kids, m) == (g_has(x.kids, m) || o > 0));
            if g_has(y.kids, m) {
                let ky = g_kid(y.kids, m);
                let kc = g_kid(c2.kids, m);
                lemma_has_witness(c2.kids, m);
                assert(kc.val().name == m);
                assert(ky.val() == kc.val());
                assert((ky is Mandatory) == (kc is Mandatory && !names.contains(m)));
                assert(names.contains(m) == g_demote_rule(kc, snap));
                if o == 0 {
                    assert(kc == g_kid(x.kids, m));
                } else {
                    assert(kc is Mandatory);
                    if g_has(x.kids, m) && g_kid(x.kids, m) is Mandatory {
                        assert(snap.contains_key(m) && snap[m] == g_kid(x.kids, m).val().count);
                        assert(cnt_after(g_kid(x.kids, m).val().count, kc.val().count));
                    } else {
                        assert(!snap.contains_key(m));
                    }
                }
            }
            assert(y.name == utf8_str(t.name));
            assert(y.text_some == (x.text_some || txt));
            assert(y.attrs == spec_merge(x.attrs, mand_decode(t.attrs)));
            assert(g_uniq(y.kids));
            if g_has(y.kids, m) {
                let ky = g_kid(y.kids, m);
                assert(counts_below_max(x.kids) ==> (ky is Mandatory) == (o > 0 && (g_has(x.kids, m) && g_kid(x.kids, m) is Mandatory)));
                assert(ky is Mandatory ==> o > 0 && (g_has(x.kids, m) && g_kid(x.kids, m) is Mandatory));
                assert(ky.val().standalone == ((g_has(x.kids, m) ==> g_kid(x.kids, m).val().standalone) && o <= 1));
            }
            assert(occ_post(Some(x), y, t, o, txt, m));
        } else {
            assert(!cc.1);
            assert(y == x1);
            assert(base.kids =~= Seq::<Necessity<GEl>>::empty());
            lemma_kid_none(base.kids, m);
            assert(!g_has(base.kids, m));
            assert(base.attrs == mand_decode(t.attrs) && !base.text_some);
            assert(counts_below_max(Seq::<Necessity<GEl>>::empty()));
            lemma_kid_none(Seq::<Necessity<GEl>>::empty(), m);
            assert(occ_post(None::<GEl>, y, t, o, txt, m));
        }
    }
}
pub proof fn theorem_occurrence_empty(s: GEl, t: Tag, known: Seq<String>, m: String)
    requires g_wf(s), g_tag_ok(t),
    ensures
        g_occ_empty(s, t, known) is Some ==> ({
            let n = utf8_str(t.name);
            let s2 = g_occ_empty(s, t, known)->Some_0;
            let x = if g_has(s.kids, n) { Some(g_kid(s.kids, n).val()) } else { None::<GEl> };
            &&& g_wf(s2)
            &&& g_has(s2.kids, n)
            &&& occ_post(x, g_kid(s2.kids, n).val(), t, 0, false, m)
        }),
{
    let n = utf8_str(t.name);
    lemma_parse_tag_unfold(s, t, known, None);
    lemma_base_wf(s, t, known);
    lemma_g_idx(s.kids, n);
    let base = g_base(s, t, known);
    let s1 = g_attach(s, n, base);
    lemma_attach_wf(s, n, base);
    lemma_attach_kids(s, n, base, n);
    lemma_tag_opt_wf(s1, n, Map::empty());
    lemma_tag_opt_kids(s1, n, Map::empty(), n);
    let names = g_to_optional_names(base.kids, Map::<String, u32>::empty());
    lemma_demote_all_char(base.kids, names, m);
    lemma_to_optional_char(base.kids, Map::<String, u32>::empty(), m);
    if g_has(s.kids, n) {
        let i = g_idx(s.kids, n);
        assert(g_wf(s.kids[i].val()));
        assert(base.kids == s.kids[i].val().kids);
    } else {
        assert(base.kids =~= Seq::<Necessity<GEl>>::empty());
        assert(!g_has(base.kids, m));
    }
}
/// the two arms of g_build are these occurrence steps
pub proof fn lemma_build_is_occurrence_steps(s: GEl, p: Seq<RdItem>, known: Seq<String>, t: Tag)
    requires p.len() > 0, g_tag_ok(t),
    ensures
        (p[0] == RdItem::Ev(AbsEv::Empty(t)) && g_occ_empty(s, t, known) is Some) ==>
            g_build(s, p, known) == g_build(g_occ_empty(s, t, known)->Some_0, p.drop_first(), g_parse_tag(s, t, known, None).1),
        (p[0] == RdItem::Ev(AbsEv::Start(t)) && g_occ_start(s, t, known, p.drop_first()) is Some
            && g_parse_tag(s, t, known, Some(p.drop_first())).2.len() < p.len()) ==>
            g_build(s, p, known) == g_build(g_occ_start(s, t, known, p.drop_first())->Some_0, g_parse_tag(s, t, known, Some(p.drop_first())).2, g_parse_tag(s, t, known, Some(p.drop_first())).1),
{}

} // verus!
