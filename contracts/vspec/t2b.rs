//! Layer T2, all occurrences at one nesting level (C03 / C01 / C06 at statement level): after g_build has processed a
//! level of the stream, the children of the element called n are described in closed form by the occurrences of n at
//! that level - mandatory iff present in every occurrence (and mandatory before), single iff never more than once,
//! text iff some occurrence has character data.  Independent of the repository's code; connected to it by T1.
#![allow(unused_imports)]
use vstd::prelude::*;
use crate::element::Element;
use crate::necessity::Necessity;
use super::*;
verus! {

/// the occurrences of elements called n at this nesting level, in order: Some(content stream) for <n ..>..</n>, None for <n ../>
pub open spec fn level_occs(p: Seq<RdItem>, n: String) -> Seq<Option<Seq<RdItem>>>
    decreases p.len()
{
    if p.len() == 0 { Seq::empty() } else {
        let rest = p.drop_first();
        match p[0] {
            RdItem::Err => Seq::empty(),
            RdItem::Ev(AbsEv::Eof) => Seq::empty(),
            RdItem::Ev(AbsEv::End) => Seq::empty(),
            RdItem::Ev(AbsEv::Empty(t)) => (if utf8_str(t.name) == n { seq![None::<Seq<RdItem>>] } else { Seq::empty() }) + level_occs(rest, n),
            RdItem::Ev(AbsEv::Start(t)) => (if utf8_str(t.name) == n { seq![Some(rest)] } else { Seq::empty() })
                + (if scan(rest).1.len() < p.len() { level_occs(scan(rest).1, n) } else { Seq::empty() }),
            _ => level_occs(rest, n),
        }
    }
}
/// how often a child called m occurs in one occurrence
pub open spec fn occ_count(o: Option<Seq<RdItem>>, m: String) -> nat {
    match o { Some(c) => occ(level_tags(c), m), None => 0 }
}
pub open spec fn occ_text(o: Option<Seq<RdItem>>) -> bool {
    match o { Some(c) => level_text(c), None => false }
}
pub open spec fn all_have(occs: Seq<Option<Seq<RdItem>>>, m: String) -> bool { forall|i: int| 0 <= i < occs.len() ==> occ_count(#[trigger] occs[i], m) > 0 }
pub open spec fn none_multi(occs: Seq<Option<Seq<RdItem>>>, m: String) -> bool { forall|i: int| 0 <= i < occs.len() ==> occ_count(#[trigger] occs[i], m) <= 1 }
pub open spec fn some_has(occs: Seq<Option<Seq<RdItem>>>, m: String) -> bool { exists|i: int| 0 <= i < occs.len() && occ_count(#[trigger] occs[i], m) > 0 }
pub open spec fn some_text(occs: Seq<Option<Seq<RdItem>>>) -> bool { exists|i: int| 0 <= i < occs.len() && occ_text(#[trigger] occs[i]) }
pub open spec fn x_kids(x: Option<GEl>) -> Seq<Necessity<GEl>> { match x { Some(e) => e.kids, None => Seq::empty() } }
pub open spec fn was_mandatory(x: Option<GEl>, m: String) -> bool { x is None || (g_has(x_kids(x), m) && g_kid(x_kids(x), m) is Mandatory) }

/// closed form for the node y = child n after its occurrences `occs` were absorbed, starting from x (None = n is new)
pub open spec fn multi_post(x: Option<GEl>, y: GEl, occs: Seq<Option<Seq<RdItem>>>, m: String) -> bool {
    let xk = x_kids(x);
    &&& g_uniq(y.kids)
    &&& y.text_some == ((x is Some && x->Some_0.text_some) || some_text(occs))
    &&& g_has(y.kids, m) == (g_has(xk, m) || some_has(occs, m))
    &&& (g_has(y.kids, m) ==> {
            // soundness (C01): Mandatory ==> present in EVERY occurrence (and Mandatory before, unless n is new)
            &&& (g_kid(y.kids, m) is Mandatory ==> all_have(occs, m) && was_mandatory(x, m))
            // exactness (C03): the converse, as long as no occurrence counter saturated
            &&& (counts_below_max(y.kids) && all_have(occs, m) && was_mandatory(x, m) && (x is Some || occs.len() > 0) ==> g_kid(y.kids, m) is Mandatory)
            // single <=> single before and never more than once per occurrence
            &&& g_kid(y.kids, m).val().standalone == ((g_has(xk, m) ==> g_kid(xk, m).val().standalone) && none_multi(occs, m))
            &&& (g_has(xk, m) ==> g_kid(y.kids, m).val().count >= g_kid(xk, m).val().count)
        })
}
pub proof fn lemma_below_max_at(kids: Seq<Necessity<GEl>>, m: String)
    requires counts_below_max(kids), g_has(kids, m),
    ensures g_kid(kids, m).val().count < u32::MAX,
{
    lemma_has_witness(kids, m);
}
/// counters bounded in the later version bound them in the earlier one (they never decrease and no child disappears)
pub proof fn lemma_below_max_back(a: Seq<Necessity<GEl>>, b: Seq<Necessity<GEl>>)
    requires
        g_uniq(a), counts_below_max(b),
        forall|mm: String| #[trigger] g_has(a, mm) ==> g_has(b, mm) && g_kid(b, mm).val().count >= g_kid(a, mm).val().count,
    ensures counts_below_max(a),
{
    assert forall|i: int| 0 <= i < a.len() implies (#[trigger] a[i]).val().count < u32::MAX by {
        let mm = a[i].val().name;
        lemma_kid_is(a, mm, i);
        assert(g_has(a, mm));
        lemma_below_max_at(b, mm);
    }
}
/// no occurrence: the node is untouched
pub proof fn lemma_multi_none(x: GEl, m: String)
    requires g_uniq(x.kids),
    ensures multi_post(Some(x), x, Seq::empty(), m),
{}
/// one occurrence: the step theorem is the closed form for a single occurrence
pub proof fn lemma_multi_single(x: Option<GEl>, y: GEl, t: Tag, first: Option<Seq<RdItem>>, m: String)
    requires
        forall|mm: String| #[trigger] occ_post(x, y, t, occ_count(first, mm), occ_text(first), mm),
        x is Some ==> g_uniq(x->Some_0.kids),
    ensures multi_post(x, y, seq![first], m),
{
    let occs = seq![first];
    let xk = x_kids(x);
    assert(occ_post(x, y, t, occ_count(first, m), occ_text(first), m));
    assert(occs[0] == first);
    if occ_count(first, m) > 0 { assert(occ_count(occs[0], m) > 0); }
    if occ_text(first) { assert(occ_text(occs[0])); }
    if g_has(y.kids, m) && counts_below_max(y.kids) {
        if x is Some {
            assert forall|mm: String| #[trigger] g_has(xk, mm) implies g_has(y.kids, mm) && g_kid(y.kids, mm).val().count >= g_kid(xk, mm).val().count by {
                assert(occ_post(x, y, t, occ_count(first, mm), occ_text(first), mm));
            }
            lemma_below_max_back(xk, y.kids);
        } else {
            assert(counts_below_max(xk));
        }
    }
}
/// first occurrence followed by the remaining ones
pub proof fn lemma_multi_compose(x: Option<GEl>, x2: GEl, y: GEl, t: Tag, first: Option<Seq<RdItem>>, tail: Seq<Option<Seq<RdItem>>>, m: String)
    requires
        forall|mm: String| #[trigger] occ_post(x, x2, t, occ_count(first, mm), occ_text(first), mm),
        forall|mm: String| #[trigger] multi_post(Some(x2), y, tail, mm),
        x is Some ==> g_uniq(x->Some_0.kids),
    ensures multi_post(x, y, seq![first] + tail, m),
{
    let occs = seq![first] + tail;
    let xk = x_kids(x);
    let o1 = occ_count(first, m);
    assert(occ_post(x, x2, t, o1, occ_text(first), m));
    assert(multi_post(Some(x2), y, tail, m));
    assert(occs[0] == first);
    assert(forall|i: int| 0 <= i < tail.len() ==> (#[trigger] tail[i]) == occs[i + 1]);
    assert(all_have(occs, m) == (o1 > 0 && all_have(tail, m))) by {
        if all_have(occs, m) { assert(occ_count(occs[0], m) > 0); assert forall|i: int| 0 <= i < tail.len() implies occ_count(#[trigger] tail[i], m) > 0 by { assert(occ_count(occs[i + 1], m) > 0); } }
        if o1 > 0 && all_have(tail, m) { assert forall|i: int| 0 <= i < occs.len() implies occ_count(#[trigger] occs[i], m) > 0 by { if i > 0 { assert(occs[i] == tail[i - 1]); } } }
    }
    assert(none_multi(occs, m) == (o1 <= 1 && none_multi(tail, m))) by {
        if none_multi(occs, m) { assert(occ_count(occs[0], m) <= 1); assert forall|i: int| 0 <= i < tail.len() implies occ_count(#[trigger] tail[i], m) <= 1 by { assert(occ_count(occs[i + 1], m) <= 1); } }
        if o1 <= 1 && none_multi(tail, m) { assert forall|i: int| 0 <= i < occs.len() implies occ_count(#[trigger] occs[i], m) <= 1 by { if i > 0 { assert(occs[i] == tail[i - 1]); } } }
    }
    assert(some_has(occs, m) == (o1 > 0 || some_has(tail, m))) by {
        if some_has(occs, m) { let i = choose|i: int| 0 <= i < occs.len() && occ_count(#[trigger] occs[i], m) > 0; if i > 0 { assert(tail[i - 1] == occs[i]); assert(occ_count(tail[i - 1], m) > 0); } }
        if o1 > 0 { assert(occ_count(occs[0], m) > 0); }
        if some_has(tail, m) { let i = choose|i: int| 0 <= i < tail.len() && occ_count(#[trigger] tail[i], m) > 0; assert(occ_count(occs[i + 1], m) > 0); }
    }
    assert(some_text(occs) == (occ_text(first) || some_text(tail))) by {
        if some_text(occs) { let i = choose|i: int| 0 <= i < occs.len() && occ_text(#[trigger] occs[i]); if i > 0 { assert(tail[i - 1] == occs[i]); assert(occ_text(tail[i - 1])); } }
        if occ_text(first) { assert(occ_text(occs[0])); }
        if some_text(tail) { let i = choose|i: int| 0 <= i < tail.len() && occ_text(#[trigger] tail[i]); assert(occ_text(occs[i + 1])); }
    }
    if g_has(y.kids, m) && counts_below_max(y.kids) {
        // counters bounded at the end => bounded in x2 => bounded in x
        assert forall|mm: String| #[trigger] g_has(x2.kids, mm) implies g_has(y.kids, mm) && g_kid(y.kids, mm).val().count >= g_kid(x2.kids, mm).val().count by {
            assert(multi_post(Some(x2), y, tail, mm));
        }
        lemma_below_max_back(x2.kids, y.kids);
        if x is Some {
            assert forall|mm: String| #[trigger] g_has(xk, mm) implies g_has(x2.kids, mm) && g_kid(x2.kids, mm).val().count >= g_kid(xk, mm).val().count by {
                assert(occ_post(x, x2, t, occ_count(first, mm), occ_text(first), mm));
            }
            lemma_below_max_back(xk, x2.kids);
        }
    }
}

/// THEOREM (C03 / C01 / C06, one nesting level, all occurrences): after a successful g_build(s, p, known) = w, the child
/// called n exists iff it existed or occurs at this level, and its children are given in closed form by multi_post
pub proof fn theorem_level_occurrences(s: GEl, p: Seq<RdItem>, known: Seq<String>, n: String, m: String)
    requires g_wf(s),
    ensures
        g_build(s, p, known).0 is Some ==> ({
            let w = g_build(s, p, known).0->Some_0;
            let occs = level_occs(p, n);
            let x = if g_has(s.kids, n) { Some(g_kid(s.kids, n).val()) } else { None::<GEl> };
            &&& g_wf(w)
            &&& g_has(w.kids, n) == (g_has(s.kids, n) || occs.len() > 0)
            &&& (g_has(w.kids, n) ==> multi_post(x, g_kid(w.kids, n).val(), occs, m))
        }),
    decreases p.len(), 1int
{
    if g_build(s, p, known).0 is Some {
        lemma_has_witness(s.kids, n);
        if g_has(s.kids, n) { assert(g_wf(s.kids[g_idx(s.kids, n)].val())); }
        if p.len() == 0 {
            if g_has(s.kids, n) { lemma_multi_none(g_kid(s.kids, n).val(), m); }
        } else {
            let rest = p.drop_first();
            match p[0] {
                RdItem::Ev(AbsEv::Comment) | RdItem::Ev(AbsEv::Decl) | RdItem::Ev(AbsEv::PI) | RdItem::Ev(AbsEv::DocType) => { theorem_level_occurrences(s, rest, known, n, m); },
                RdItem::Ev(AbsEv::Text(b)) | RdItem::Ev(AbsEv::CData(b)) => {
                    let s1 = GEl { text_some: true, ..s };
                    assert(g_wf(s1));
                    theorem_level_occurrences(s1, rest, known, n, m);
                },
                RdItem::Ev(AbsEv::Eof) | RdItem::Ev(AbsEv::End) => {
                    if g_has(s.kids, n) { lemma_multi_none(g_kid(s.kids, n).val(), m); }
                },
                RdItem::Err => {},
                RdItem::Ev(AbsEv::Empty(t)) => {
                    let nt = utf8_str(t.name);
                    lemma_build_is_occurrence_steps(s, p, known, t);
                    assert(g_occ_empty(s, t, known) is Some);
                    let s2 = g_occ_empty(s, t, known)->Some_0;
                    let k2 = g_parse_tag(s, t, known, None).1;
                    theorem_occurrence_empty(s, t, known, m);
                    step_case(s, p, known, n, m, t, s2, rest, k2, None);
                },
                RdItem::Ev(AbsEv::Start(t)) => {
                    let nt = utf8_str(t.name);
                    let r = g_parse_tag(s, t, known, Some(rest));
                    assert(r.0 is Some && r.2.len() < p.len());
                    lemma_build_is_occurrence_steps(s, p, known, t);
                    let s2 = g_occ_start(s, t, known, rest)->Some_0;
                    theorem_occurrence_start(s, t, known, rest, m);
                    lemma_parse_tag_unfold(s, t, known, Some(rest));
                    lemma_build_rest_scan(g_base(s, t, known), rest, Seq::empty());
                    assert(r.2 == scan(rest).1);
                    step_case(s, p, known, n, m, t, s2, r.2, r.1, Some(rest));
                },
            }
        }
    }
}
/// the common part of the Start and Empty cases: s2 is the tree after absorbing the occurrence `first` of the element
/// called utf8_str(t.name); the rest of the level is `tail_stream`
proof fn step_case(s: GEl, p: Seq<RdItem>, known: Seq<String>, n: String, m: String, t: Tag, s2: GEl, tail_stream: Seq<RdItem>, k2: Seq<String>, first: Option<Seq<RdItem>>)
    requires
        g_wf(s), g_tag_ok(t), p.len() > 0, tail_stream.len() < p.len(),
        g_build(s, p, known).0 is Some,
        g_build(s, p, known) == g_build(s2, tail_stream, k2),
        match first { Some(c) => p[0] == RdItem::Ev(AbsEv::Start(t)) && c == p.drop_first() && g_occ_start(s, t, known, c) == Some(s2) && tail_stream == scan(c).1,
                      None => p[0] == RdItem::Ev(AbsEv::Empty(t)) && g_occ_empty(s, t, known) == Some(s2) && tail_stream == p.drop_first() },
    ensures
        ({
            let w = g_build(s, p, known).0->Some_0;
            let occs = level_occs(p, n);
            let x = if g_has(s.kids, n) { Some(g_kid(s.kids, n).val()) } else { None::<GEl> };
            &&& g_wf(w)
            &&& g_has(w.kids, n) == (g_has(s.kids, n) || occs.len() > 0)
            &&& (g_has(w.kids, n) ==> multi_post(x, g_kid(w.kids, n).val(), occs, m))
        }),
    decreases p.len(), 0int
{
    let nt = utf8_str(t.name);
    let w = g_build(s, p, known).0->Some_0;
    let x = if g_has(s.kids, n) { Some(g_kid(s.kids, n).val()) } else { None::<GEl> };
    let tail = level_occs(tail_stream, n);
    lemma_has_witness(s.kids, n);
    if g_has(s.kids, n) { assert(g_wf(s.kids[g_idx(s.kids, n)].val())); }
    // s2 is well-formed, and what the step did to the child called n
    match first {
        Some(c) => { theorem_occurrence_start(s, t, known, c, m); },
        None => { theorem_occurrence_empty(s, t, known, m); },
    }
    assert(g_wf(s2));
    // the rest of the level
    theorem_level_occurrences(s2, tail_stream, k2, n, m);
    if nt != n {
        // the step did not touch the child called n
        assert(level_occs(p, n) =~= tail);
        lemma_step_frame(s, t, known, first, s2, n);
    } else {
        let occs = seq![first] + tail;
        assert(level_occs(p, n) =~= occs);
        let x2 = g_kid(s2.kids, n).val();
        assert(g_has(s2.kids, n));
        assert forall|mm: String| #[trigger] occ_post(x, x2, t, occ_count(first, mm), occ_text(first), mm) by {
            match first {
                Some(c) => { theorem_occurrence_start(s, t, known, c, mm); },
                None => { theorem_occurrence_empty(s, t, known, mm); },
            }
        }
        assert(g_has(w.kids, n));
        let y = g_kid(w.kids, n).val();
        assert forall|mm: String| #[trigger] multi_post(Some(x2), y, tail, mm) by {
            theorem_level_occurrences(s2, tail_stream, k2, n, mm);
        }
        lemma_multi_compose(x, x2, y, t, first, tail, m);
    }
}
/// an occurrence of another element leaves the child called n exactly as it was
pub proof fn lemma_step_frame(s: GEl, t: Tag, known: Seq<String>, first: Option<Seq<RdItem>>, s2: GEl, n: String)
    requires
        g_wf(s), g_tag_ok(t), utf8_str(t.name) != n,
        match first { Some(c) => g_occ_start(s, t, known, c) == Some(s2), None => g_occ_empty(s, t, known) == Some(s2) },
    ensures g_has(s2.kids, n) == g_has(s.kids, n), g_has(s.kids, n) ==> g_kid(s2.kids, n) == g_kid(s.kids, n),
{
    let nt = utf8_str(t.name);
    lemma_base_wf(s, t, known);
    match first {
        Some(c) => {
            lemma_parse_tag_unfold(s, t, known, Some(c));
            let inner = g_build(g_base(s, t, known), c, Seq::empty());
            let c2 = inner.0->Some_0;
            lemma_build_wf(g_base(s, t, known), c, Seq::empty());
            let s1 = g_attach(s, nt, c2);
            lemma_attach_wf(s, nt, c2);
            lemma_attach_kids(s, nt, c2, n);
            let cc = g_count_children(s, nt);
            lemma_tag_opt_kids(s1, nt, cc.0, n);
        },
        None => {
            lemma_parse_tag_unfold(s, t, known, None);
            let base = g_base(s, t, known);
            let s1 = g_attach(s, nt, base);
            lemma_attach_wf(s, nt, base);
            lemma_attach_kids(s, nt, base, n);
            lemma_tag_opt_kids(s1, nt, Map::empty(), n);
        },
    }
}

} // verus!
