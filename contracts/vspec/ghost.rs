//! Ghost schema tree `GEl`, the abstraction `abs`, and the parser algorithm as spec functions (layer T1).
#![allow(unused_imports)]
use vstd::prelude::*;
use vstd::std_specs::cmp::PartialEqSpec;
use crate::element::Element;
use crate::necessity::Necessity;
use super::*;
verus! {

// =====================================================================================
// Ghost schema tree and the functional specification of the parser (layer T1 of DESIGN.md)
// =====================================================================================

/// ghost schema tree: exact internal order; text *content* erased
pub ghost struct GEl {
    pub name: String, pub text_some: bool, pub standalone: bool, pub count: u32,
    pub attrs: Seq<Necessity<String>>, pub kids: Seq<Necessity<GEl>>, pub position: Option<usize>,
}
pub open spec fn abs_n(n: Necessity<Element<String>>) -> Necessity<GEl>
    decreases n, 0int
{
    match n { Necessity::Optional(e) => Necessity::Optional(abs(e)), Necessity::Mandatory(e) => Necessity::Mandatory(abs(e)) }
}
pub open spec fn abs_kids(s: Seq<Necessity<Element<String>>>) -> Seq<Necessity<GEl>>
    decreases s, 1int
{
    if s.len() == 0 { Seq::empty() } else { abs_kids(s.drop_last()).push(abs_n(s.last())) }
}
pub open spec fn abs(e: Element<String>) -> GEl
    decreases e, 2int
{
    GEl { name: e.name, text_some: e.text is Some, standalone: e.standalone, count: e.count,
          attrs: e.attributes@, kids: abs_kids(e.children@), position: e.position }
}
pub proof fn lemma_abs_kids_index(s: Seq<Necessity<Element<String>>>)
    ensures abs_kids(s).len() == s.len(), forall|i: int| 0 <= i < s.len() ==> (#[trigger] abs_kids(s)[i]) == abs_n(s[i]),
    decreases s.len()
{
    if s.len() > 0 { lemma_abs_kids_index(s.drop_last()); }
}
pub proof fn lemma_abs_kids_push(s: Seq<Necessity<Element<String>>>, x: Necessity<Element<String>>)
    ensures abs_kids(s.push(x)) == abs_kids(s).push(abs_n(x)),
{
    assert(s.push(x).drop_last() == s);
}
pub proof fn lemma_abs_kids_remove(s: Seq<Necessity<Element<String>>>, i: int)
    requires 0 <= i < s.len(),
    ensures abs_kids(s.remove(i)) == abs_kids(s).remove(i),
{
    lemma_abs_kids_index(s); lemma_abs_kids_index(s.remove(i));
    assert(abs_kids(s.remove(i)) =~= abs_kids(s).remove(i));
}
pub proof fn lemma_abs_kids_ext(a: Seq<Necessity<Element<String>>>, b: Seq<Necessity<GEl>>)
    requires a.len() == b.len(), forall|i: int| 0 <= i < a.len() ==> abs_n(#[trigger] a[i]) == b[i],
    ensures abs_kids(a) == b,
{
    lemma_abs_kids_index(a);
    assert(abs_kids(a) =~= b);
}

/// the occurrence counter saturates instead of overflowing (repair of D5)
pub open spec fn sat_inc(c: u32) -> u32 { if c == u32::MAX { u32::MAX } else { (c + 1) as u32 } }

// ---- list-level ghost operations ----
pub open spec fn g_idx(kids: Seq<Necessity<GEl>>, name: String) -> int decreases kids.len()
{ if kids.len() == 0 { 0 } else if kids[0].val().name == name { 0 } else { 1 + g_idx(kids.drop_first(), name) } }
pub open spec fn g_mand_counts(kids: Seq<Necessity<GEl>>) -> Map<String, u32> decreases kids.len()
{
    if kids.len() == 0 { Map::empty() } else {
        let pre = g_mand_counts(kids.drop_last());
        if kids.last() is Mandatory { pre.insert(kids.last().val().name, kids.last().val().count) } else { pre }
    }
}
pub open spec fn g_demote_rule(c: Necessity<GEl>, snap: Map<String, u32>) -> bool {
    if snap.contains_key(c.val().name) { snap[c.val().name] == c.val().count } else { c is Mandatory }
}
pub open spec fn g_to_optional_names(kids: Seq<Necessity<GEl>>, snap: Map<String, u32>) -> Seq<String> decreases kids.len()
{
    if kids.len() == 0 { Seq::empty() } else {
        let pre = g_to_optional_names(kids.drop_last(), snap);
        if g_demote_rule(kids.last(), snap) { pre.push(kids.last().val().name) } else { pre }
    }
}
pub open spec fn g_demote(kids: Seq<Necessity<GEl>>, name: String) -> Seq<Necessity<GEl>> {
    let i = g_idx(kids, name);
    if i < kids.len() { kids.remove(i).push(Necessity::Optional(kids[i].val())) } else { kids }
}
pub open spec fn g_demote_all_rev(kids: Seq<Necessity<GEl>>, names: Seq<String>) -> Seq<Necessity<GEl>> decreases names.len()
{ if names.len() == 0 { kids } else { g_demote_all_rev(g_demote(kids, names.last()), names.drop_last()) } }
pub open spec fn retag(n: Necessity<GEl>, x: GEl) -> Necessity<GEl> {
    match n { Necessity::Optional(_) => Necessity::Optional(x), Necessity::Mandatory(_) => Necessity::Mandatory(x) }
}

pub proof fn lemma_idx_agree(kids: Seq<Necessity<Element<String>>>, name: String)
    ensures g_idx(abs_kids(kids), name) == kid_idx(kids, name), 0 <= kid_idx(kids, name) <= kids.len(),
    decreases kids.len()
{
    lemma_abs_kids_index(kids);
    if kids.len() > 0 {
        lemma_abs_kids_index(kids.drop_first());
        assert(abs_kids(kids).drop_first() =~= abs_kids(kids.drop_first()));
        lemma_idx_agree(kids.drop_first(), name);
    }
}

// ---- node-level ghost operations: the algorithm as a function of (tree, event sequence) ----
pub open spec fn g_count_children(s: GEl, n: String) -> (Map<String, u32>, bool) {
    let i = g_idx(s.kids, n);
    if i < s.kids.len() { (g_mand_counts(s.kids[i].val().kids), true) } else { (Map::empty(), false) }
}
pub open spec fn g_tag_opt(s: GEl, n: String, snap: Map<String, u32>) -> GEl {
    let i = g_idx(s.kids, n);
    if i >= s.kids.len() { s } else {
        let x = s.kids[i].val();
        let x2 = GEl { kids: g_demote_all_rev(x.kids, g_to_optional_names(x.kids, snap)), ..x };
        GEl { kids: s.kids.update(i, retag(s.kids[i], x2)), ..s }
    }
}
pub open spec fn decode_attrs(a: Seq<Option<Seq<u8>>>) -> Seq<String> decreases a.len()
{ if a.len() == 0 { Seq::empty() } else { seq![utf8_str(a[0]->Some_0)] + decode_attrs(a.drop_first()) } }
pub open spec fn mand_decode(a: Seq<Option<Seq<u8>>>) -> Seq<Necessity<String>> decreases a.len()
{ if a.len() == 0 { Seq::empty() } else { seq![Necessity::Mandatory(utf8_str(a[0]->Some_0))] + mand_decode(a.drop_first()) } }
pub proof fn lemma_mand_decode(a: Seq<Option<Seq<u8>>>)
    ensures mand_decode(a).len() == a.len(), decode_attrs(a).len() == a.len(),
        forall|i: int| 0 <= i < a.len() ==> (#[trigger] mand_decode(a)[i]) == Necessity::Mandatory(decode_attrs(a)[i]),
    decreases a.len()
{
    if a.len() > 0 {
        lemma_mand_decode(a.drop_first());
        assert forall|i: int| 0 <= i < a.len() implies (#[trigger] mand_decode(a)[i]) == Necessity::Mandatory(decode_attrs(a)[i]) by {
            if i > 0 { assert(mand_decode(a)[i] == mand_decode(a.drop_first())[i - 1]); assert(decode_attrs(a)[i] == decode_attrs(a.drop_first())[i - 1]); }
        }
    }
}
pub open spec fn g_attrs_ok(a: Seq<Option<Seq<u8>>>) -> bool {
    forall|k: int| 0 <= k < a.len() ==> (#[trigger] a[k]) is Some && utf8_ok(a[k]->Some_0)
}
pub open spec fn g_tag_ok(t: Tag) -> bool { utf8_ok(t.name) && g_attrs_ok(t.attrs) }

/// (result tree or None on error, known names afterwards, rest of the stream)
pub open spec fn g_parse_tag(s: GEl, t: Tag, known: Seq<String>, content: Option<Seq<RdItem>>) -> (Option<GEl>, Seq<String>, Seq<RdItem>)
    decreases (match content { Some(p) => p.len(), None => 0 }), 1int
{
    let n = utf8_str(t.name);
    let i = g_idx(s.kids, n);
    let na = mand_decode(t.attrs);
    let base = if i < s.kids.len() {
        let c = s.kids[i].val();
        GEl { attrs: spec_merge(c.attrs, na), standalone: c.standalone && !known.contains(n), count: sat_inc(c.count), ..c }
    } else {
        GEl { name: n, text_some: false, standalone: !known.contains(n), count: 1, attrs: na, kids: Seq::empty(), position: None }
    };
    let rest_kids = if i < s.kids.len() { s.kids.remove(i) } else { s.kids };
    let inner: (Option<GEl>, Seq<RdItem>) = match content { Some(p) => g_build(base, p, Seq::empty()), None => (Some(base), Seq::empty()) };
    match inner.0 {
        None => (None, known, inner.1),
        Some(c2) => {
            let known2 = if known.contains(n) { known } else { known.push(n) };
            let c3 = GEl { position: if c2.position is None { Some(rest_kids.len() as usize) } else { c2.position }, ..c2 };
            (Some(GEl { kids: rest_kids.push(Necessity::Mandatory(c3)), ..s }), known2, inner.1)
        }
    }
}
pub open spec fn g_build(s: GEl, p: Seq<RdItem>, known: Seq<String>) -> (Option<GEl>, Seq<RdItem>)
    decreases p.len(), 0int
{
    if p.len() == 0 { (Some(s), p) } else {
        let rest = p.drop_first();
        match p[0] {
            RdItem::Err => (None, rest),
            RdItem::Ev(AbsEv::Eof) => (Some(s), rest),
            RdItem::Ev(AbsEv::End) => (Some(s), rest),
            RdItem::Ev(AbsEv::Comment) => g_build(s, rest, known),
            RdItem::Ev(AbsEv::Decl) => g_build(s, rest, known),
            RdItem::Ev(AbsEv::PI) => g_build(s, rest, known),
            RdItem::Ev(AbsEv::DocType) => g_build(s, rest, known),
            RdItem::Ev(AbsEv::Text(b)) => if utf8_ok(b) { g_build(GEl { text_some: true, ..s }, rest, known) } else { (None, rest) },
            RdItem::Ev(AbsEv::CData(b)) => if utf8_ok(b) { g_build(GEl { text_some: true, ..s }, rest, known) } else { (None, rest) },
            RdItem::Ev(AbsEv::Empty(t)) => if !g_tag_ok(t) { (None, rest) } else {
                let r = g_parse_tag(s, t, known, None);
                match r.0 {
                    None => (None, rest),
                    Some(s1) => g_build(g_tag_opt(s1, utf8_str(t.name), Map::empty()), rest, r.1),
                }
            },
            RdItem::Ev(AbsEv::Start(t)) => if !g_tag_ok(t) { (None, rest) } else {
                let cc = g_count_children(s, utf8_str(t.name));
                let r = g_parse_tag(s, t, known, Some(rest));
                match r.0 {
                    None => (None, r.2),
                    Some(s1) => {
                        let s2 = if cc.1 { g_tag_opt(s1, utf8_str(t.name), cc.0) } else { s1 };
                        if r.2.len() < p.len() { g_build(s2, r.2, r.1) } else { (None, r.2) }
                    },
                }
            },
        }
    }
}

// ---- the public entry points as spec functions ----
/// abs(Element::new(nm, [])) - the synthetic parent both entry points parse below; its name never matters
pub open spec fn g_root(nm: String) -> GEl {
    GEl { name: nm, text_some: false, standalone: true, count: 1, attrs: Seq::empty(), kids: Seq::empty(), position: None }
}
/// the wrapper extend_struct builds around the previous root
pub open spec fn g_wrap(nm: String, r: GEl) -> GEl {
    GEl { kids: seq![Necessity::Mandatory(GEl { position: if r.position is None { Some(0usize) } else { r.position }, ..r })], ..g_root(nm) }
}
/// first child of the tree g_build produces below `s`, if the stream is accepted and there is one
pub open spec fn g_first_child(s: GEl, p: Seq<RdItem>) -> Option<GEl> {
    match g_build(s, p, Seq::empty()).0 {
        Some(w) => if w.kids.len() > 0 { Some(w.kids[0].val()) } else { None },
        None => None,
    }
}
/// the stream has a Start/Empty event at this nesting level before it ends (C08: "the input contains an element")
pub open spec fn has_elem(p: Seq<RdItem>) -> bool
    decreases p.len()
{
    if p.len() == 0 { false } else {
        let rest = p.drop_first();
        match p[0] {
            RdItem::Err => false,
            RdItem::Ev(AbsEv::Eof) => false,
            RdItem::Ev(AbsEv::End) => false,
            RdItem::Ev(AbsEv::Comment) => has_elem(rest),
            RdItem::Ev(AbsEv::Decl) => has_elem(rest),
            RdItem::Ev(AbsEv::PI) => has_elem(rest),
            RdItem::Ev(AbsEv::DocType) => has_elem(rest),
            RdItem::Ev(AbsEv::Text(b)) => has_elem(rest),
            RdItem::Ev(AbsEv::CData(b)) => has_elem(rest),
            RdItem::Ev(AbsEv::Empty(t)) => true,
            RdItem::Ev(AbsEv::Start(t)) => true,
        }
    }
}
pub proof fn lemma_g_idx_bounds(kids: Seq<Necessity<GEl>>, name: String)
    ensures 0 <= g_idx(kids, name) <= kids.len(),
    decreases kids.len()
{
    if kids.len() > 0 && kids[0].val().name != name { lemma_g_idx_bounds(kids.drop_first(), name); }
}
pub proof fn lemma_parse_tag_kids_len(s: GEl, t: Tag, known: Seq<String>, content: Option<Seq<RdItem>>)
    ensures g_parse_tag(s, t, known, content).0 is Some ==> ({
        let s1 = g_parse_tag(s, t, known, content).0->Some_0;
        s1.kids.len() >= 1 && s1.kids.len() >= s.kids.len() && s1.name == s.name
    }),
{
    lemma_g_idx_bounds(s.kids, utf8_str(t.name));
}
pub proof fn lemma_tag_opt_frame(s: GEl, n: String, snap: Map<String, u32>)
    ensures
        g_tag_opt(s, n, snap).kids.len() == s.kids.len(),
        g_tag_opt(s, n, snap).name == s.name,
        g_tag_opt(s, n, snap).position == s.position,
{}
/// a successful build never loses children of the node it builds below, keeps its name, and yields at least one
/// child exactly when there was one before or the stream has an element at this level
pub proof fn lemma_build_kids_len(s: GEl, p: Seq<RdItem>, known: Seq<String>)
    ensures
        g_build(s, p, known).0 is Some ==> ({
            let w = g_build(s, p, known).0->Some_0;
            &&& w.kids.len() >= s.kids.len()
            &&& w.name == s.name
            &&& (w.kids.len() > 0 <==> (s.kids.len() > 0 || has_elem(p)))
        }),
    decreases p.len()
{
    if p.len() > 0 {
        let rest = p.drop_first();
        match p[0] {
            RdItem::Err => {},
            RdItem::Ev(AbsEv::Eof) => {},
            RdItem::Ev(AbsEv::End) => {},
            RdItem::Ev(AbsEv::Comment) => { lemma_build_kids_len(s, rest, known); },
            RdItem::Ev(AbsEv::Decl) => { lemma_build_kids_len(s, rest, known); },
            RdItem::Ev(AbsEv::PI) => { lemma_build_kids_len(s, rest, known); },
            RdItem::Ev(AbsEv::DocType) => { lemma_build_kids_len(s, rest, known); },
            RdItem::Ev(AbsEv::Text(b)) => { if utf8_ok(b) { lemma_build_kids_len(GEl { text_some: true, ..s }, rest, known); } },
            RdItem::Ev(AbsEv::CData(b)) => { if utf8_ok(b) { lemma_build_kids_len(GEl { text_some: true, ..s }, rest, known); } },
            RdItem::Ev(AbsEv::Empty(t)) => {
                if g_tag_ok(t) {
                    let r = g_parse_tag(s, t, known, None);
                    if r.0 is Some {
                        let s1 = r.0->Some_0;
                        lemma_parse_tag_kids_len(s, t, known, None);
                        let s2 = g_tag_opt(s1, utf8_str(t.name), Map::empty());
                        lemma_tag_opt_frame(s1, utf8_str(t.name), Map::empty());
                        lemma_build_kids_len(s2, rest, r.1);
                    }
                }
            },
            RdItem::Ev(AbsEv::Start(t)) => {
                if g_tag_ok(t) {
                    let cc = g_count_children(s, utf8_str(t.name));
                    let r = g_parse_tag(s, t, known, Some(rest));
                    if r.0 is Some {
                        let s1 = r.0->Some_0;
                        lemma_parse_tag_kids_len(s, t, known, Some(rest));
                        let s2 = if cc.1 { g_tag_opt(s1, utf8_str(t.name), cc.0) } else { s1 };
                        lemma_tag_opt_frame(s1, utf8_str(t.name), cc.0);
                        if r.2.len() < p.len() { lemma_build_kids_len(s2, r.2, r.1); }
                    }
                }
            },
        }
    }
}

pub proof fn lemma_g_has_witness(kids: Seq<Necessity<GEl>>, m: String, k: int)
    requires 0 <= k < kids.len(), kids[k].val().name == m,
    ensures g_has(kids, m),
    decreases kids.len()
{
    if kids[0].val().name != m {
        let t = kids.drop_first();
        assert(t[k - 1] == kids[k]);
        lemma_g_has_witness(t, m, k - 1);
    }
}
pub proof fn lemma_g_has_index(kids: Seq<Necessity<GEl>>, m: String)
    ensures 0 <= g_idx(kids, m) <= kids.len(), g_has(kids, m) ==> kids[g_idx(kids, m)].val().name == m,
    decreases kids.len()
{
    if kids.len() > 0 && kids[0].val().name != m { lemma_g_has_index(kids.drop_first(), m); }
}
/// one tag: the child names of the node survive (the child called like the tag is taken out and put back)
pub proof fn lemma_parse_tag_names(s: GEl, t: Tag, known: Seq<String>, content: Option<Seq<RdItem>>, m: String)
    ensures g_parse_tag(s, t, known, content).0 is Some && g_has(s.kids, m) ==> g_has(g_parse_tag(s, t, known, content).0->Some_0.kids, m),
{
    let r = g_parse_tag(s, t, known, content);
    if r.0 is Some && g_has(s.kids, m) {
        let n = utf8_str(t.name);
        let i = g_idx(s.kids, n);
        lemma_g_has_index(s.kids, n);
        lemma_g_has_index(s.kids, m);
        let j = g_idx(s.kids, m);
        let na = mand_decode(t.attrs);
        let base = if i < s.kids.len() {
            let c = s.kids[i].val();
            GEl { attrs: spec_merge(c.attrs, na), standalone: c.standalone && !known.contains(n), count: sat_inc(c.count), ..c }
        } else {
            GEl { name: n, text_some: false, standalone: !known.contains(n), count: 1, attrs: na, kids: Seq::empty(), position: None }
        };
        let rest_kids = if i < s.kids.len() { s.kids.remove(i) } else { s.kids };
        let k1 = r.0->Some_0.kids;
        assert(k1.len() == rest_kids.len() + 1);
        if m == n {
            assert(i < s.kids.len());
            assert(base.name == n);
            match content { Some(p) => { lemma_build_kids_len(base, p, Seq::empty()); }, None => {} }
            assert(k1[rest_kids.len() as int].val().name == n);
            lemma_g_has_witness(k1, m, rest_kids.len() as int);
        } else {
            assert(j != i);
            let jj = if i < s.kids.len() && j > i { j - 1 } else { j };
            assert(rest_kids[jj] == s.kids[j]);
            assert(k1[jj] == rest_kids[jj]);
            lemma_g_has_witness(k1, m, jj);
        }
    }
}
pub proof fn lemma_tag_opt_names(s: GEl, n: String, snap: Map<String, u32>, m: String)
    ensures g_has(s.kids, m) ==> g_has(g_tag_opt(s, n, snap).kids, m),
{
    if g_has(s.kids, m) {
        lemma_g_has_index(s.kids, m);
        let j = g_idx(s.kids, m);
        let k1 = g_tag_opt(s, n, snap).kids;
        assert(k1.len() == s.kids.len());
        assert(k1[j].val().name == m);
        lemma_g_has_witness(k1, m, j);
    }
}
/// a successful build never drops a child NAME of the node it builds below
pub proof fn lemma_build_names(s: GEl, p: Seq<RdItem>, known: Seq<String>, m: String)
    ensures g_build(s, p, known).0 is Some && g_has(s.kids, m) ==> g_has(g_build(s, p, known).0->Some_0.kids, m),
    decreases p.len()
{
    if p.len() > 0 && g_has(s.kids, m) {
        let rest = p.drop_first();
        match p[0] {
            RdItem::Err => {},
            RdItem::Ev(AbsEv::Eof) => {},
            RdItem::Ev(AbsEv::End) => {},
            RdItem::Ev(AbsEv::Comment) => { lemma_build_names(s, rest, known, m); },
            RdItem::Ev(AbsEv::Decl) => { lemma_build_names(s, rest, known, m); },
            RdItem::Ev(AbsEv::PI) => { lemma_build_names(s, rest, known, m); },
            RdItem::Ev(AbsEv::DocType) => { lemma_build_names(s, rest, known, m); },
            RdItem::Ev(AbsEv::Text(b)) => { if utf8_ok(b) { lemma_build_names(GEl { text_some: true, ..s }, rest, known, m); } },
            RdItem::Ev(AbsEv::CData(b)) => { if utf8_ok(b) { lemma_build_names(GEl { text_some: true, ..s }, rest, known, m); } },
            RdItem::Ev(AbsEv::Empty(t)) => {
                if g_tag_ok(t) {
                    let r = g_parse_tag(s, t, known, None);
                    if r.0 is Some {
                        let s1 = r.0->Some_0;
                        lemma_parse_tag_names(s, t, known, None, m);
                        let s2 = g_tag_opt(s1, utf8_str(t.name), Map::empty());
                        lemma_tag_opt_names(s1, utf8_str(t.name), Map::empty(), m);
                        lemma_build_names(s2, rest, r.1, m);
                    }
                }
            },
            RdItem::Ev(AbsEv::Start(t)) => {
                if g_tag_ok(t) {
                    let cc = g_count_children(s, utf8_str(t.name));
                    let r = g_parse_tag(s, t, known, Some(rest));
                    if r.0 is Some {
                        let s1 = r.0->Some_0;
                        lemma_parse_tag_names(s, t, known, Some(rest), m);
                        let s2 = if cc.1 { g_tag_opt(s1, utf8_str(t.name), cc.0) } else { s1 };
                        lemma_tag_opt_names(s1, utf8_str(t.name), cc.0, m);
                        if r.2.len() < p.len() { lemma_build_names(s2, r.2, r.1, m); }
                    }
                }
            },
        }
    }
}

} // verus!
