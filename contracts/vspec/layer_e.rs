//! Layer E (C11): spec-level lemmas behind `<x/>` == `<x></x>`.
#![allow(unused_imports)]
use vstd::prelude::*;
use vstd::std_specs::cmp::PartialEqSpec;
use crate::element::Element;
use crate::necessity::Necessity;
use super::*;
verus! {

// =====================================================================================
// Layer E (C11): an empty-element tag behaves like a start tag immediately followed by an end tag
// =====================================================================================
pub open spec fn g_uniq(kids: Seq<Necessity<GEl>>) -> bool {
    forall|i: int, j: int| 0 <= i < j < kids.len() ==> (#[trigger] kids[i]).val().name != (#[trigger] kids[j]).val().name
}
/// in a duplicate-free list the snapshot contains exactly the Mandatory children, with their counts
pub proof fn lemma_mand_counts_char(kids: Seq<Necessity<GEl>>)
    requires g_uniq(kids),
    ensures
        forall|k: int| 0 <= k < kids.len() ==> (g_mand_counts(kids).contains_key((#[trigger] kids[k]).val().name) <==> kids[k] is Mandatory),
        forall|k: int| 0 <= k < kids.len() && kids[k] is Mandatory ==> g_mand_counts(kids)[(#[trigger] kids[k]).val().name] == kids[k].val().count,
        forall|nm: String| g_mand_counts(kids).contains_key(nm) ==> exists|k: int| 0 <= k < kids.len() && (#[trigger] kids[k]).val().name == nm,
    decreases kids.len()
{
    if kids.len() > 0 {
        let pre = kids.drop_last();
        assert(g_uniq(pre)) by {
            assert forall|i: int, j: int| 0 <= i < j < pre.len() implies (#[trigger] pre[i]).val().name != (#[trigger] pre[j]).val().name by {
                assert(pre[i] == kids[i] && pre[j] == kids[j]);
            }
        }
        lemma_mand_counts_char(pre);
        let last = kids.last();
        assert forall|k: int| 0 <= k < kids.len() implies
            (g_mand_counts(kids).contains_key((#[trigger] kids[k]).val().name) <==> kids[k] is Mandatory)
            && (kids[k] is Mandatory ==> g_mand_counts(kids)[kids[k].val().name] == kids[k].val().count) by
        {
            if k < kids.len() - 1 {
                assert(pre[k] == kids[k]);
                assert(kids[k].val().name != kids[kids.len() - 1].val().name);
            } else {
                if !(last is Mandatory) {
                    if g_mand_counts(pre).contains_key(last.val().name) {
                        let w = choose|w: int| 0 <= w < pre.len() && (#[trigger] pre[w]).val().name == last.val().name;
                        assert(pre[w] == kids[w]);
                        assert(kids[w].val().name != kids[kids.len() - 1].val().name);
                    }
                }
            }
        }
        assert forall|nm: String| g_mand_counts(kids).contains_key(nm) implies exists|k: int| 0 <= k < kids.len() && (#[trigger] kids[k]).val().name == nm by {
            if last is Mandatory && nm == last.val().name {
                assert(kids[kids.len() - 1].val().name == nm);
            } else {
                let w = choose|w: int| 0 <= w < pre.len() && (#[trigger] pre[w]).val().name == nm;
                assert(pre[w] == kids[w]);
            }
        }
    }
}
/// with the snapshot taken from the same list and no count changed, the snapshot rule demotes exactly what the empty snapshot demotes
pub proof fn lemma_to_optional_same(kids: Seq<Necessity<GEl>>, all: Seq<Necessity<GEl>>)
    requires
        g_uniq(all),
        kids.len() <= all.len(),
        forall|k: int| 0 <= k < kids.len() ==> (#[trigger] kids[k]) == all[k],
    ensures g_to_optional_names(kids, g_mand_counts(all)) == g_to_optional_names(kids, Map::empty()),
    decreases kids.len()
{
    if kids.len() > 0 {
        let pre = kids.drop_last();
        assert forall|k: int| 0 <= k < pre.len() implies (#[trigger] pre[k]) == all[k] by { assert(pre[k] == kids[k]); }
        lemma_to_optional_same(pre, all);
        lemma_mand_counts_char(all);
        let k = kids.len() - 1;
        assert(kids.last() == all[k]);
    }
}

} // verus!
