//! Assumed contracts (the trusted base): A1-A6 of DESIGN.md section 3.3.
//! Nothing in this file is proved; every item is listed in contracts/ASSUMPTIONS.allow.
#![allow(unused_imports)]
use vstd::prelude::*;
use vstd::std_specs::cmp::PartialEqSpec;
use vstd::std_specs::iter::IteratorSpec;
use super::*;
verus! {

// ---------- A1: PartialEq is structural equality ----------
pub open spec fn eq_is_structural<T: PartialEq>() -> bool {
    <T as PartialEqSpec>::obeys_eq_spec()
        && forall|a: T, b: T| #[trigger] PartialEqSpec::eq_spec(&a, &b) <==> a == b
}

// ---------- A2: std::mem::discriminant ----------
#[verifier::reject_recursive_types(T)]
#[verifier::external_type_specification]
#[verifier::external_body]
pub struct ExDiscriminant<T>(std::mem::Discriminant<T>);
pub uninterp spec fn discr_of<T>(t: &T) -> int;
pub uninterp spec fn discr_val<T>(d: std::mem::Discriminant<T>) -> int;
pub assume_specification<T> [std::mem::discriminant] (v: &T) -> (d: std::mem::Discriminant<T>)
    ensures discr_val(d) == discr_of(v);
pub assume_specification<T> [<std::mem::Discriminant<T> as PartialEq>::eq] (a: &std::mem::Discriminant<T>, b: &std::mem::Discriminant<T>) -> (r: bool)
    ensures r == (discr_val(*a) == discr_val(*b));

// ---------- A3: std slice contains ----------
pub assume_specification<T: PartialEq> [<[T]>::contains] (s: &[T], x: &T) -> (r: bool)
    ensures
        <T as PartialEqSpec>::obeys_eq_spec() ==> r == (exists|i: int| 0 <= i < s@.len() && #[trigger] PartialEqSpec::eq_spec(&s@[i], x));


// ---------- A4: String keys ----------
pub open spec fn string_keys_ok() -> bool {
    vstd::std_specs::hash::obeys_key_model::<String>()
}

// ---------- A5: quick_xml boundary (assumed) ----------
#[verifier::external_type_specification] #[verifier::external_body] #[verifier::reject_recursive_types(R)]
pub struct ExReader<R>(quick_xml::reader::Reader<R>);
#[verifier::external_type_specification] #[verifier::external_body]
pub struct ExBytesStart<'a>(quick_xml::events::BytesStart<'a>);
#[verifier::external_type_specification] #[verifier::external_body]
pub struct ExBytesEnd<'a>(quick_xml::events::BytesEnd<'a>);
#[verifier::external_type_specification] #[verifier::external_body]
pub struct ExBytesText<'a>(quick_xml::events::BytesText<'a>);
#[verifier::external_type_specification] #[verifier::external_body]
pub struct ExBytesCData<'a>(quick_xml::events::BytesCData<'a>);
#[verifier::external_type_specification] #[verifier::external_body]
pub struct ExBytesDecl<'a>(quick_xml::events::BytesDecl<'a>);
#[verifier::external_type_specification] #[verifier::external_body]
pub struct ExBytesPI<'a>(quick_xml::events::BytesPI<'a>);
#[verifier::external_type_specification]
pub struct ExEvent<'a>(quick_xml::events::Event<'a>);
#[verifier::external_type_specification] #[verifier::external_body]
pub struct ExQName<'a>(quick_xml::name::QName<'a>);
#[verifier::external_type_specification] #[verifier::external_body]
pub struct ExAttributes<'a>(quick_xml::events::attributes::Attributes<'a>);
#[verifier::external_type_specification]
pub struct ExAttribute<'a>(quick_xml::events::attributes::Attribute<'a>);
#[verifier::external_type_specification] #[verifier::external_body]
pub struct ExAttrError(quick_xml::events::attributes::AttrError);
#[verifier::external_type_specification] #[verifier::external_body]
pub struct ExQxError(quick_xml::Error);
#[verifier::external_type_specification] #[verifier::external_body]
pub struct ExFromUtf8Error(std::string::FromUtf8Error);

/// abstract start tag: name bytes and, per attribute in document order, Some(key bytes) or None (malformed / duplicated)
pub ghost struct Tag { pub name: Seq<u8>, pub attrs: Seq<Option<Seq<u8>>> }
pub ghost enum AbsEv { Start(Tag), Empty(Tag), End, Text(Seq<u8>), CData(Seq<u8>), Comment, Decl, PI, DocType, Eof }
pub ghost enum RdItem { Ev(AbsEv), Err }

pub uninterp spec fn rd_pending<R>(r: quick_xml::reader::Reader<R>) -> Seq<RdItem>;
pub uninterp spec fn rd_pos<R>(r: quick_xml::reader::Reader<R>) -> u64;
pub uninterp spec fn tag_of(e: quick_xml::events::BytesStart<'_>) -> Tag;
pub uninterp spec fn text_bytes(e: quick_xml::events::BytesText<'_>) -> Seq<u8>;
pub uninterp spec fn cdata_bytes(e: quick_xml::events::BytesCData<'_>) -> Seq<u8>;
pub uninterp spec fn bytes_of<T>(t: T) -> Seq<u8>;
pub uninterp spec fn utf8_ok(b: Seq<u8>) -> bool;
pub uninterp spec fn utf8_str(b: Seq<u8>) -> String;
pub uninterp spec fn attrs_pending(a: quick_xml::events::attributes::Attributes<'_>) -> Seq<Option<Seq<u8>>>;

pub open spec fn abs_event(e: quick_xml::events::Event<'_>) -> AbsEv {
    match e {
        quick_xml::events::Event::Start(b) => AbsEv::Start(tag_of(b)),
        quick_xml::events::Event::End(_) => AbsEv::End,
        quick_xml::events::Event::Empty(b) => AbsEv::Empty(tag_of(b)),
        quick_xml::events::Event::Text(t) => AbsEv::Text(text_bytes(t)),
        quick_xml::events::Event::CData(t) => AbsEv::CData(cdata_bytes(t)),
        quick_xml::events::Event::Comment(_) => AbsEv::Comment,
        quick_xml::events::Event::Decl(_) => AbsEv::Decl,
        quick_xml::events::Event::PI(_) => AbsEv::PI,
        quick_xml::events::Event::DocType(_) => AbsEv::DocType,
        quick_xml::events::Event::Eof => AbsEv::Eof,
    }
}
pub open spec fn abs_result(r: std::result::Result<quick_xml::events::Event<'_>, quick_xml::Error>) -> RdItem {
    match r { Ok(e) => RdItem::Ev(abs_event(e)), Err(_) => RdItem::Err }
}

pub assume_specification<'b, R: std::io::BufRead> [quick_xml::reader::Reader::<R>::read_event_into] (r: &mut quick_xml::Reader<R>, buf: &'b mut std::vec::Vec<u8>) -> (res: std::result::Result<quick_xml::events::Event<'b>, quick_xml::Error>)
    ensures
        rd_pending(*old(r)).len() > 0 ==> abs_result(res) == rd_pending(*old(r))[0] && rd_pending(*final(r)) == rd_pending(*old(r)).drop_first(),
        rd_pending(*old(r)).len() == 0 ==> abs_result(res) == RdItem::Ev(AbsEv::Eof) && rd_pending(*final(r)).len() == 0;
pub assume_specification<R> [quick_xml::Reader::<R>::buffer_position] (r: &quick_xml::Reader<R>) -> (p: u64)
    ensures p == rd_pos(*r);
pub assume_specification<'a, 's> [quick_xml::events::BytesStart::<'a>::name] (e: &'s quick_xml::events::BytesStart<'a>) -> (q: quick_xml::name::QName<'s>)
    ensures bytes_of(q) == tag_of(*e).name;
pub assume_specification<'a, 's> [quick_xml::events::BytesStart::<'a>::attributes] (e: &'s quick_xml::events::BytesStart<'a>) -> (a: quick_xml::events::attributes::Attributes<'s>)
    ensures attrs_pending(a) == tag_of(*e).attrs;
pub assume_specification<'a> [<quick_xml::events::attributes::Attributes<'a> as Iterator>::next] (it: &mut quick_xml::events::attributes::Attributes<'a>) -> (r: Option<<quick_xml::events::attributes::Attributes<'a> as std::iter::Iterator>::Item>)
    ensures
        attrs_pending(*old(it)).len() == 0 ==> r is None && attrs_pending(*final(it)).len() == 0,
        attrs_pending(*old(it)).len() > 0 ==> r is Some && attrs_pending(*final(it)) == attrs_pending(*old(it)).drop_first()
            && (match r->Some_0 { Ok(a) => attrs_pending(*old(it))[0] == Some(bytes_of(a.key)), Err(_) => attrs_pending(*old(it))[0] is None });
pub assume_specification<'a> [quick_xml::events::BytesText::<'a>::into_inner] (t: quick_xml::events::BytesText<'a>) -> (c: std::borrow::Cow<'a, [u8]>)
    ensures bytes_of(c) == text_bytes(t);
pub assume_specification<'a> [quick_xml::events::BytesCData::<'a>::into_inner] (t: quick_xml::events::BytesCData<'a>) -> (c: std::borrow::Cow<'a, [u8]>)
    ensures bytes_of(c) == cdata_bytes(t);


// ---------- A10: std `Iterator::position` on a slice iterator (vstd has no specification for it) ----------
// std documentation: "Searches for an element in an iterator, returning its index. ... position() is short-circuiting;
// it stops processing as soon as it finds a true": the closure was called on the items before the returned index and
// answered false, on the item at the index and answered true; None = it answered false for every remaining item.
// `idx_hint(j)` is `true`; it only gives callers a term to instantiate the quantifiers with (the iterator is a temporary
// that a proof hint cannot name).
pub open spec fn idx_hint(j: int) -> bool { true }
pub assume_specification<'a, T, P: FnMut(&'a T) -> bool> [ <core::slice::Iter<'a, T> as Iterator>::position ] (it: &mut core::slice::Iter<'a, T>, p: P) -> (r: Option<usize>)
    where core::slice::Iter<'a, T>: Sized,
    requires forall|x: &'a T| p.requires((x,)),
    ensures
        match r {
            Some(i) => i < old(it).remaining().len()
                && p.ensures((old(it).remaining()[i as int],), true)
                && forall|j: int| #![trigger old(it).remaining()[j]] #![trigger idx_hint(j)] 0 <= j < i && idx_hint(j) ==> p.ensures((old(it).remaining()[j],), false),
            None => forall|j: int| #![trigger old(it).remaining()[j]] #![trigger idx_hint(j)] 0 <= j < old(it).remaining().len() && idx_hint(j) ==> p.ensures((old(it).remaining()[j],), false),
        };

// ---------- A9: Rust's allocation limit ----------
// A Vec of a non-zero-sized element type holds at most isize::MAX bytes, hence fewer than isize::MAX elements
// (std::vec::Vec documentation, "Guarantees").  Necessity<_>, String and u8 are never zero-sized.  Without this fact
// Verus would have to flag harmless size arithmetic such as Vec::with_capacity(a.len() + b.len()).
pub broadcast axiom fn axiom_vec_len_bound_necessity<T>(v: Vec<crate::necessity::Necessity<T>>)
    ensures #[trigger] v@.len() <= isize::MAX as int;
pub broadcast axiom fn axiom_vec_len_bound_string(v: Vec<String>)
    ensures #[trigger] v@.len() <= isize::MAX as int;
pub broadcast axiom fn axiom_vec_len_bound_u8(v: Vec<u8>)
    ensures #[trigger] v@.len() <= isize::MAX as int;
pub broadcast group group_vec_len_bounds {
    axiom_vec_len_bound_necessity,
    axiom_vec_len_bound_string,
    axiom_vec_len_bound_u8,
}

} // verus!
