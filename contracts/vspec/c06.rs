//! C06 over the ghost algorithm: extending is absorbing one more occurrence of the root below a synthetic parent
//! (the same occurrence step as for a repeated element inside one document), an element-less input changes nothing,
//! and every occurrence step is monotone (nothing dropped, Optional never becomes Mandatory, multiple never becomes
//! single, text never lost), and - at one nesting level - the resulting schema depends only on the SET of occurrences
//! absorbed (order independence and idempotence, corollary_occurrence_set_invariance).
#![allow(unused_imports)]
use vstd::prelude::*;
use crate::element::Element;
use crate::necessity::Necessity;
use super::*;
verus! {

/// a stream without an element at this level leaves the children of the node untouched (only its text flag may be set)
pub proof fn lemma_no_elem_noop(s: GEl, p: Seq<RdItem>, known: Seq<String>)
    ensures
        g_build(s, p, known).0 is Some && !has_elem(p) ==> ({
            let w = g_build(s, p, known).0->Some_0;
            w.kids == s.kids && w.name == s.name && w.attrs == s.attrs && w.count == s.count && w.standalone == s.standalone
                && w.position == s.position && (s.text_some ==> w.text_some)
        }),
    decreases p.len()
{
    if p.len() > 0 && !has_elem(p) {
        let rest = p.drop_first();
        match p[0] {
            RdItem::Ev(AbsEv::Comment) | RdItem::Ev(AbsEv::Decl) | RdItem::Ev(AbsEv::PI) | RdItem::Ev(AbsEv::DocType) => { lemma_no_elem_noop(s, rest, known); },
            RdItem::Ev(AbsEv::Text(b)) | RdItem::Ev(AbsEv::CData(b)) => { if utf8_ok(b) { lemma_no_elem_noop(GEl { text_some: true, ..s }, rest, known); } },
            _ => {},
        }
    }
}
/// (C06) extending with an empty or element-less input returns the previous structure
/// (the root's own `position`, which is never rendered, is filled in with Some(0) if it was None)
pub proof fn corollary_extend_elementless(nm: String, prev: GEl, p: Seq<RdItem>)
    requires !has_elem(p), g_build(g_wrap(nm, prev), p, Seq::empty()).0 is Some,
    ensures g_first_child(g_wrap(nm, prev), p) == Some(GEl { position: if prev.position is None { Some(0usize) } else { prev.position }, ..prev }),
{
    lemma_no_elem_noop(g_wrap(nm, prev), p, Seq::empty());
}
/// (C06) extending IS absorbing one more occurrence of the root element below the synthetic parent: if the input starts
/// (after ignorable events) with the root's start tag, the tree below the wrapper is produced by the same occurrence
/// step g_occ_start / g_occ_empty that handles a repeated element inside one document
pub proof fn corollary_extend_is_occurrence(nm: String, prev: GEl, p: Seq<RdItem>, t: Tag)
    requires p.len() > 0, g_tag_ok(t),
    ensures
        (p[0] == RdItem::Ev(AbsEv::Start(t)) && g_occ_start(g_wrap(nm, prev), t, Seq::empty(), p.drop_first()) is Some
            && g_parse_tag(g_wrap(nm, prev), t, Seq::empty(), Some(p.drop_first())).2.len() < p.len()) ==>
            g_build(g_wrap(nm, prev), p, Seq::empty()) == g_build(g_occ_start(g_wrap(nm, prev), t, Seq::empty(), p.drop_first())->Some_0,
                g_parse_tag(g_wrap(nm, prev), t, Seq::empty(), Some(p.drop_first())).2, g_parse_tag(g_wrap(nm, prev), t, Seq::empty(), Some(p.drop_first())).1),
{
    lemma_build_is_occurrence_steps(g_wrap(nm, prev), p, Seq::empty(), t);
}
/// (C06) every occurrence step is monotone for the node it updates: nothing is dropped, an Optional child never becomes
/// Mandatory, a repeated child never becomes single, the text flag is never lost
pub proof fn corollary_step_monotone(x: GEl, y: GEl, t: Tag, o: nat, text: bool, m: String)
    requires occ_post(Some(x), y, t, o, text, m),
    ensures
        x.text_some ==> y.text_some,
        g_has(x.kids, m) ==> g_has(y.kids, m),
        g_has(x.kids, m) && g_kid(y.kids, m) is Mandatory ==> g_kid(x.kids, m) is Mandatory,
        g_has(x.kids, m) && g_kid(y.kids, m).val().standalone ==> g_kid(x.kids, m).val().standalone,
        y.attrs == spec_merge(x.attrs, mand_decode(t.attrs)),
{}
/// (C06) attributes are monotone under the merge: none is dropped and an Optional one never becomes Mandatory
pub proof fn corollary_attrs_monotone(a: Seq<Necessity<String>>, b: Seq<Necessity<String>>, x: String)
    requires dup_free(a), dup_free(b),
    ensures
        has(a, x) ==> has(spec_merge(a, b), x),
        mand_in(spec_merge(a, b), x) ==> mand_in(a, x),
{
    theorem_c15(a, b, x);
}

/// every occurrence of `a` is also in `b`
pub open spec fn occs_subset(a: Seq<Option<Seq<RdItem>>>, b: Seq<Option<Seq<RdItem>>>) -> bool {
    forall|i: int| 0 <= i < a.len() ==> b.contains(#[trigger] a[i])
}
/// the two occurrence lists contain the same occurrences (as sets): covers every permutation and every repetition
pub open spec fn same_occurrences(a: Seq<Option<Seq<RdItem>>>, b: Seq<Option<Seq<RdItem>>>) -> bool {
    occs_subset(a, b) && occs_subset(b, a)
}
proof fn lemma_subset_preds(a: Seq<Option<Seq<RdItem>>>, b: Seq<Option<Seq<RdItem>>>, m: String)
    requires occs_subset(a, b),
    ensures
        all_have(b, m) ==> all_have(a, m),
        none_multi(b, m) ==> none_multi(a, m),
        some_has(a, m) ==> some_has(b, m),
        some_text(a) ==> some_text(b),
        a.len() > 0 ==> b.len() > 0,
{
    if all_have(b, m) {
        assert forall|i: int| 0 <= i < a.len() implies occ_count(#[trigger] a[i], m) > 0 by {
            assert(b.contains(a[i]));
            let j = choose|j: int| 0 <= j < b.len() && b[j] == a[i];
            assert(occ_count(b[j], m) > 0);
        }
    }
    if none_multi(b, m) {
        assert forall|i: int| 0 <= i < a.len() implies occ_count(#[trigger] a[i], m) <= 1 by {
            assert(b.contains(a[i]));
            let j = choose|j: int| 0 <= j < b.len() && b[j] == a[i];
            assert(occ_count(b[j], m) <= 1);
        }
    }
    if some_has(a, m) {
        let i = choose|i: int| 0 <= i < a.len() && occ_count(#[trigger] a[i], m) > 0;
        assert(b.contains(a[i]));
        let j = choose|j: int| 0 <= j < b.len() && b[j] == a[i];
        assert(occ_count(b[j], m) > 0);
    }
    if some_text(a) {
        let i = choose|i: int| 0 <= i < a.len() && occ_text(#[trigger] a[i]);
        assert(b.contains(a[i]));
        let j = choose|j: int| 0 <= j < b.len() && b[j] == a[i];
        assert(occ_text(b[j]));
    }
    if a.len() > 0 {
        assert(b.contains(a[0]));
    }
}
/// (C06, one nesting level) ORDER INDEPENDENCE AND IDEMPOTENCE: if the same node x absorbs two lists of occurrences that
/// contain the same occurrences - in any order, any of them any number of times - the resulting schemas agree on every
/// child name: present or not, Option or not, Vec or not, and on the text flag (as long as no counter saturated)
pub proof fn corollary_occurrence_set_invariance(x: Option<GEl>, y1: GEl, y2: GEl, a: Seq<Option<Seq<RdItem>>>, b: Seq<Option<Seq<RdItem>>>, m: String)
    requires
        multi_post(x, y1, a, m), multi_post(x, y2, b, m), same_occurrences(a, b),
        counts_below_max(y1.kids), counts_below_max(y2.kids),
    ensures
        y1.text_some == y2.text_some,
        g_has(y1.kids, m) == g_has(y2.kids, m),
        g_has(y1.kids, m) ==> (g_kid(y1.kids, m) is Mandatory) == (g_kid(y2.kids, m) is Mandatory),
        g_has(y1.kids, m) ==> g_kid(y1.kids, m).val().standalone == g_kid(y2.kids, m).val().standalone,
{
    lemma_subset_preds(a, b, m);
    lemma_subset_preds(b, a, m);
}

} // verus!
