//! C15 clause by clause: the statement of the property derived from the functional spec `spec_merge`
//! (which the real merge_necessity is proved to compute).  Independent of the repository's code.
#![allow(unused_imports)]
use vstd::prelude::*;
use crate::necessity::Necessity;
use super::*;
verus! {

pub open spec fn dup_free<T>(s: Seq<Necessity<T>>) -> bool {
    forall|i: int, j: int| 0 <= i < j < s.len() ==> (#[trigger] s[i]).val() != (#[trigger] s[j]).val()
}
pub open spec fn mand_in<T>(s: Seq<Necessity<T>>, x: T) -> bool {
    exists|i: int| 0 <= i < s.len() && (#[trigger] s[i]).val() == x && s[i] is Mandatory
}
/// the items of `other` that are not in `acc`, tagged Optional, in their original relative order
pub open spec fn new_only<T>(acc: Seq<Necessity<T>>, other: Seq<Necessity<T>>) -> Seq<Necessity<T>>
    decreases other.len()
{
    if other.len() == 0 { Seq::empty() }
    else if has(acc, other[0].val()) { new_only(acc, other.drop_first()) }
    else { seq![Necessity::Optional(other[0].val())] + new_only(acc, other.drop_first()) }
}
pub proof fn lemma_has_push<T>(acc: Seq<Necessity<T>>, v: Necessity<T>, x: T)
    ensures has(acc.push(v), x) == (has(acc, x) || v.val() == x),
{
    let a2 = acc.push(v);
    if has(acc, x) { let i = choose|i: int| 0 <= i < acc.len() && (#[trigger] acc[i]).val() == x; assert(a2[i].val() == x); }
    if v.val() == x { assert(a2[a2.len() - 1].val() == x); }
    if has(a2, x) { let i = choose|i: int| 0 <= i < a2.len() && (#[trigger] a2[i]).val() == x; if i < acc.len() { assert(acc[i].val() == x); } }
}
/// pushing a value that does not occur in `other` does not change which items of `other` are new
pub proof fn lemma_new_only_irrelevant<T>(acc: Seq<Necessity<T>>, v: Necessity<T>, other: Seq<Necessity<T>>)
    requires forall|j: int| 0 <= j < other.len() ==> (#[trigger] other[j]).val() != v.val(),
    ensures new_only(acc.push(v), other) == new_only(acc, other),
    decreases other.len()
{
    if other.len() > 0 {
        let rest = other.drop_first();
        assert(forall|j: int| 0 <= j < rest.len() ==> (#[trigger] rest[j]) == other[j + 1]);
        lemma_new_only_irrelevant(acc, v, rest);
        lemma_has_push(acc, v, other[0].val());
    }
}
pub proof fn lemma_append_new_is_concat<T>(acc: Seq<Necessity<T>>, other: Seq<Necessity<T>>)
    requires dup_free(other),
    ensures append_new(acc, other) == acc + new_only(acc, other),
    decreases other.len()
{
    if other.len() == 0 {
        assert(acc + Seq::<Necessity<T>>::empty() =~= acc);
    } else {
        let rest = other.drop_first();
        assert(forall|j: int| 0 <= j < rest.len() ==> (#[trigger] rest[j]) == other[j + 1]);
        assert(dup_free(rest));
        if has(acc, other[0].val()) {
            lemma_append_new_is_concat(acc, rest);
        } else {
            let v = Necessity::Optional(other[0].val());
            lemma_append_new_is_concat(acc.push(v), rest);
            assert forall|j: int| 0 <= j < rest.len() implies (#[trigger] rest[j]).val() != v.val() by { assert(other[0].val() != other[j + 1].val()); }
            lemma_new_only_irrelevant(acc, v, rest);
            assert(acc.push(v) + new_only(acc, rest) =~= acc + (seq![v] + new_only(acc, rest)));
        }
    }
}
/// what new_only contains
pub proof fn lemma_new_only_char<T>(acc: Seq<Necessity<T>>, other: Seq<Necessity<T>>, x: T)
    requires dup_free(other),
    ensures
        has(new_only(acc, other), x) == (has(other, x) && !(has(acc, x))),
        !mand_in(new_only(acc, other), x),
        dup_free(new_only(acc, other)),
        new_only(acc, other).len() <= other.len(),
    decreases other.len()
{
    if other.len() > 0 {
        let rest = other.drop_first();
        assert(forall|j: int| 0 <= j < rest.len() ==> (#[trigger] rest[j]) == other[j + 1]);
        assert(dup_free(rest));
        lemma_new_only_char(acc, rest, x);
        let r = new_only(acc, rest);
        assert(has(other, x) == (other[0].val() == x || has(rest, x))) by {
            if has(other, x) { let i = choose|i: int| 0 <= i < other.len() && (#[trigger] other[i]).val() == x; if i > 0 { assert(rest[i - 1].val() == x); } }
            if has(rest, x) { let i = choose|i: int| 0 <= i < rest.len() && (#[trigger] rest[i]).val() == x; assert(other[i + 1].val() == x); }
            if other[0].val() == x { assert(other[0].val() == x); }
        }
        if !(has(acc, other[0].val())) {
            let v = Necessity::<T>::Optional(other[0].val());
            let n = seq![v] + r;
            assert(new_only(acc, other) == n);
            assert(has(n, x) == (v.val() == x || has(r, x))) by {
                if has(n, x) { let i = choose|i: int| 0 <= i < n.len() && (#[trigger] n[i]).val() == x; if i > 0 { assert(r[i - 1].val() == x); } }
                if has(r, x) { let i = choose|i: int| 0 <= i < r.len() && (#[trigger] r[i]).val() == x; assert(n[i + 1].val() == x); }
                if v.val() == x { assert(n[0].val() == x); }
            }
            assert(!mand_in(n, x)) by {
                if mand_in(n, x) { let i = choose|i: int| 0 <= i < n.len() && (#[trigger] n[i]).val() == x && n[i] is Mandatory; if i > 0 { assert(r[i - 1].val() == x && r[i - 1] is Mandatory); } }
            }
            assert(dup_free(n)) by {
                assert forall|i: int, j: int| 0 <= i < j < n.len() implies (#[trigger] n[i]).val() != (#[trigger] n[j]).val() by {
                    if i == 0 {
                        // n[j] is an item of rest, which differs from other[0]
                        lemma_new_only_char(acc, rest, other[0].val());
                        if n[j].val() == other[0].val() {
                            assert(r[j - 1].val() == other[0].val());
                            assert(has(r, other[0].val()));
                            let k = choose|k: int| 0 <= k < rest.len() && (#[trigger] rest[k]).val() == other[0].val();
                            assert(other[0].val() != other[k + 1].val());
                        }
                    } else {
                        assert(n[i] == r[i - 1] && n[j] == r[j - 1]);
                    }
                }
            }
        }
    }
}
pub proof fn lemma_merged_first_char<T>(a: Seq<Necessity<T>>, b: Seq<Necessity<T>>, x: T)
    requires dup_free(a), dup_free(b),
    ensures
        merged_first(a, b).len() == a.len(),
        forall|i: int| 0 <= i < a.len() ==> (#[trigger] merged_first(a, b)[i]).val() == a[i].val(),
        has(merged_first(a, b), x) == has(a, x),
        mand_in(merged_first(a, b), x) == (mand_in(a, x) && mand_in(b, x)),
        dup_free(merged_first(a, b)),
{
    let mf = merged_first(a, b);
    assert forall|i: int| 0 <= i < a.len() implies (#[trigger] mf[i]).val() == a[i].val() by {}
    if has(mf, x) { let i = choose|i: int| 0 <= i < mf.len() && (#[trigger] mf[i]).val() == x; assert(a[i].val() == x); }
    if has(a, x) { let i = choose|i: int| 0 <= i < a.len() && (#[trigger] a[i]).val() == x; assert(mf[i].val() == x); }
    assert(dup_free(mf)) by {
        assert forall|i: int, j: int| 0 <= i < j < mf.len() implies (#[trigger] mf[i]).val() != (#[trigger] mf[j]).val() by {
            assert(mf[i].val() == a[i].val() && mf[j].val() == a[j].val());
        }
    }
    if mand_in(mf, x) {
        let i = choose|i: int| 0 <= i < mf.len() && (#[trigger] mf[i]).val() == x && mf[i] is Mandatory;
        let j = first_idx(b, a[i].val());
        assert(j < b.len() && a[i] is Mandatory && b[j] is Mandatory);
        lemma_first_idx_bounds(b, a[i].val());
        assert(a[i].val() == x);
        assert(b[j].val() == x);
    }
    if mand_in(a, x) && mand_in(b, x) {
        let i = choose|i: int| 0 <= i < a.len() && (#[trigger] a[i]).val() == x && a[i] is Mandatory;
        let k = choose|k: int| 0 <= k < b.len() && (#[trigger] b[k]).val() == x && b[k] is Mandatory;
        lemma_first_idx_bounds(b, x);
        let j = first_idx(b, x);
        // b is duplicate-free, so the first index with value x is k
        assert(j == k) by { if j < k { assert(b[j].val() != b[k].val()); } else if j > k { assert(false); } }
        assert(mf[i].val() == x && mf[i] is Mandatory);
    }
}
pub proof fn lemma_first_idx_bounds<T>(s: Seq<Necessity<T>>, x: T)
    ensures
        0 <= first_idx(s, x) <= s.len(),
        first_idx(s, x) < s.len() ==> s[first_idx(s, x)].val() == x,
        forall|j: int| 0 <= j < first_idx(s, x) ==> (#[trigger] s[j]).val() != x,
    decreases s.len()
{
    if s.len() > 0 && s[0].val() != x {
        let t = s.drop_first();
        lemma_first_idx_bounds(t, x);
        assert(forall|j: int| 1 <= j < first_idx(s, x) ==> (#[trigger] s[j]) == t[j - 1]);
    }
}

/// THEOREM (C15): for duplicate-free lists, spec_merge(a, b)
///   (1) is duplicate-free and contains exactly the items of either list (each distinct item exactly once),
///   (2) an item is Mandatory iff it is Mandatory in both lists,
///   (3) starts with the items of `a` in their order, followed by the items found only in `b`, Optional, in their original relative order.
pub proof fn theorem_c15<T>(a: Seq<Necessity<T>>, b: Seq<Necessity<T>>, x: T)
    requires dup_free(a), dup_free(b),
    ensures
        dup_free(spec_merge(a, b)),
        has(spec_merge(a, b), x) == (has(a, x) || has(b, x)),
        mand_in(spec_merge(a, b), x) == (mand_in(a, x) && mand_in(b, x)),
        spec_merge(a, b) == merged_first(a, b) + new_only(merged_first(a, b), b),
        forall|i: int| 0 <= i < a.len() ==> (#[trigger] spec_merge(a, b)[i]).val() == a[i].val(),
        has(new_only(merged_first(a, b), b), x) == (has(b, x) && !(has(a, x))),
{
    let mf = merged_first(a, b);
    let no = new_only(mf, b);
    let r = spec_merge(a, b);
    lemma_append_new_is_concat(mf, b);
    lemma_merged_first_char(a, b, x);
    lemma_new_only_char(mf, b, x);
    assert(r == mf + no);
    assert forall|i: int| 0 <= i < a.len() implies (#[trigger] r[i]).val() == a[i].val() by { assert(r[i] == mf[i]); }
    assert(has(r, x) == (has(mf, x) || has(no, x))) by {
        if has(r, x) { let i = choose|i: int| 0 <= i < r.len() && (#[trigger] r[i]).val() == x; if i < mf.len() { assert(mf[i].val() == x); } else { assert(no[i - mf.len()].val() == x); } }
        if has(mf, x) { let i = choose|i: int| 0 <= i < mf.len() && (#[trigger] mf[i]).val() == x; assert(r[i].val() == x); }
        if has(no, x) { let i = choose|i: int| 0 <= i < no.len() && (#[trigger] no[i]).val() == x; assert(r[i + mf.len()].val() == x); }
    }
    assert(mand_in(r, x) == mand_in(mf, x)) by {
        if mand_in(r, x) {
            let i = choose|i: int| 0 <= i < r.len() && (#[trigger] r[i]).val() == x && r[i] is Mandatory;
            if i < mf.len() { assert(mf[i].val() == x && mf[i] is Mandatory); } else { assert(no[i - mf.len()].val() == x && no[i - mf.len()] is Mandatory); }
        }
        if mand_in(mf, x) { let i = choose|i: int| 0 <= i < mf.len() && (#[trigger] mf[i]).val() == x && mf[i] is Mandatory; assert(r[i].val() == x && r[i] is Mandatory); }
    }
    assert(dup_free(r)) by {
        assert forall|i: int, j: int| 0 <= i < j < r.len() implies (#[trigger] r[i]).val() != (#[trigger] r[j]).val() by {
            if j < mf.len() { assert(r[i] == mf[i] && r[j] == mf[j]); }
            else if i >= mf.len() { assert(r[i] == no[i - mf.len()] && r[j] == no[j - mf.len()]); }
            else {
                assert(r[i] == mf[i] && r[j] == no[j - mf.len()]);
                let y = r[j].val();
                lemma_new_only_char(mf, b, y);
                assert(has(no, y));
                assert(!(has(mf, y)));
            }
        }
    }
}

} // verus!
