//! Specification vocabulary for `Necessity<T>` lists and the functional spec of `merge_necessity` (C15).
#![allow(unused_imports)]
use vstd::prelude::*;
use vstd::std_specs::cmp::PartialEqSpec;
use crate::element::Element;
use crate::necessity::Necessity;
use super::*;
verus! {

impl<T> Necessity<T> {
    pub open spec fn val(self) -> T {
        match self { Necessity::Optional(t) => t, Necessity::Mandatory(t) => t }
    }
}

/// A2 (assumed): discriminants of two Necessity values agree iff they are the same variant
pub broadcast axiom fn axiom_necessity_discriminant<T>(a: &Necessity<T>, b: &Necessity<T>)
    ensures #![trigger discr_of(a), discr_of(b)] (discr_of(a) == discr_of(b)) <==> ((*a is Mandatory) == (*b is Mandatory));

impl<T: std::cmp::PartialEq> vstd::std_specs::cmp::PartialEqSpecImpl for Necessity<T> {
    open spec fn obeys_eq_spec() -> bool { <T as vstd::std_specs::cmp::PartialEqSpec>::obeys_eq_spec() }
    open spec fn eq_spec(&self, other: &Necessity<T>) -> bool {
        ((*self is Mandatory) == (*other is Mandatory))
            && vstd::std_specs::cmp::PartialEqSpec::eq_spec(&self.val(), &other.val())
    }
}

// ---- specification of merge_necessity, written from the statement of C15 ----
pub open spec fn first_idx<T>(s: Seq<Necessity<T>>, x: T) -> int
    decreases s.len()
{
    if s.len() == 0 { 0 } else if s[0].val() == x { 0 } else { 1 + first_idx(s.drop_first(), x) }
}
pub open spec fn has<T>(s: Seq<Necessity<T>>, x: T) -> bool {
    exists|i: int| 0 <= i < s.len() && (#[trigger] s[i]).val() == x
}
pub open spec fn merged_item<T>(a: Necessity<T>, other: Seq<Necessity<T>>) -> Necessity<T> {
    let j = first_idx(other, a.val());
    if j < other.len() && a is Mandatory && other[j] is Mandatory { Necessity::Mandatory(a.val()) } else { Necessity::Optional(a.val()) }
}
pub open spec fn merged_first<T>(vec: Seq<Necessity<T>>, other: Seq<Necessity<T>>) -> Seq<Necessity<T>> {
    Seq::new(vec.len(), |i: int| merged_item(vec[i], other))
}
pub open spec fn append_new<T>(acc: Seq<Necessity<T>>, other: Seq<Necessity<T>>) -> Seq<Necessity<T>>
    decreases other.len()
{
    if other.len() == 0 { acc }
    else if has(acc, other[0].val()) { append_new(acc, other.drop_first()) }
    else { append_new(acc.push(Necessity::Optional(other[0].val())), other.drop_first()) }
}
pub open spec fn spec_merge<T>(vec: Seq<Necessity<T>>, other: Seq<Necessity<T>>) -> Seq<Necessity<T>> {
    append_new(merged_first(vec, other), other)
}
pub proof fn lemma_first_idx_at<T>(s: Seq<Necessity<T>>, x: T, k: int)
    requires 0 <= k < s.len(), s[k].val() == x, forall|j: int| 0 <= j < k ==> (#[trigger] s[j]).val() != x,
    ensures first_idx(s, x) == k
    decreases s.len()
{
    if k > 0 {
        let t = s.drop_first();
        assert(forall|j: int| 0 <= j < k - 1 ==> (#[trigger] t[j]) == s[j + 1]);
        lemma_first_idx_at(t, x, k - 1);
    }
}
pub proof fn lemma_first_idx_none<T>(s: Seq<Necessity<T>>, x: T)
    requires forall|j: int| 0 <= j < s.len() ==> (#[trigger] s[j]).val() != x,
    ensures first_idx(s, x) >= s.len()
    decreases s.len()
{
    if s.len() > 0 {
        let t = s.drop_first();
        assert(forall|j: int| 0 <= j < t.len() ==> (#[trigger] t[j]) == s[j + 1]);
        lemma_first_idx_none(t, x);
    }
}
pub proof fn lemma_append_new_push<T>(acc: Seq<Necessity<T>>, s: Seq<Necessity<T>>, x: Necessity<T>)
    ensures append_new(acc, s.push(x)) == (if has(append_new(acc, s), x.val()) { append_new(acc, s) } else { append_new(acc, s).push(Necessity::Optional(x.val())) })
    decreases s.len()
{
    if s.len() == 0 {
        assert(s.push(x).drop_first() == Seq::<Necessity<T>>::empty());
        assert(append_new(acc, Seq::<Necessity<T>>::empty()) == acc);
        assert(append_new(acc.push(Necessity::Optional(x.val())), Seq::<Necessity<T>>::empty()) == acc.push(Necessity::Optional(x.val())));
    } else {
        assert(s.push(x).drop_first() == s.drop_first().push(x));
        assert(s.push(x)[0] == s[0]);
        if has(acc, s[0].val()) {
            lemma_append_new_push(acc, s.drop_first(), x);
        } else {
            lemma_append_new_push(acc.push(Necessity::Optional(s[0].val())), s.drop_first(), x);
        }
    }
}

} // verus!
