//! Layer T2, every nesting depth: the closed form of t2b.rs holds for the child called n AND, recursively, for its
//! children with respect to their own occurrences (the occurrences of m inside the occurrences of n), to any depth d.
//! This replaces the "same theorem at every node" meta-argument by a machine-checked induction on the depth.
#![allow(unused_imports)]
use vstd::prelude::*;
use crate::element::Element;
use crate::necessity::Necessity;
use super::*;
verus! {

/// the occurrences of m inside the occurrences `occs` of its parent, in order
pub open spec fn child_hist(occs: Seq<Option<Seq<RdItem>>>, m: String) -> Seq<Option<Seq<RdItem>>>
    decreases occs.len()
{
    if occs.len() == 0 { Seq::empty() } else {
        (match occs[0] { Some(c) => level_occs(c, m), None => Seq::empty() }) + child_hist(occs.drop_first(), m)
    }
}
pub open spec fn kid_opt(x: Option<GEl>, m: String) -> Option<GEl> {
    match x { Some(e) => if g_has(e.kids, m) { Some(g_kid(e.kids, m).val()) } else { None }, None => None }
}
/// closed form down to depth d
pub open spec fn deep_post(x: Option<GEl>, y: GEl, occs: Seq<Option<Seq<RdItem>>>, d: nat) -> bool
    decreases d
{
    d == 0 || {
        &&& forall|m: String| #[trigger] multi_post(x, y, occs, m)
        &&& forall|m: String| #[trigger] g_has(y.kids, m) ==> deep_post(kid_opt(x, m), g_kid(y.kids, m).val(), child_hist(occs, m), (d - 1) as nat)
    }
}

pub proof fn lemma_child_hist_concat(a: Seq<Option<Seq<RdItem>>>, b: Seq<Option<Seq<RdItem>>>, m: String)
    ensures child_hist(a + b, m) == child_hist(a, m) + child_hist(b, m),
    decreases a.len()
{
    if a.len() == 0 {
        assert(a + b =~= b);
        assert(child_hist(a, m) + child_hist(b, m) =~= child_hist(b, m));
    } else {
        assert((a + b).drop_first() =~= a.drop_first() + b);
        assert((a + b)[0] == a[0]);
        lemma_child_hist_concat(a.drop_first(), b, m);
        let h = match a[0] { Some(c) => level_occs(c, m), None => Seq::empty() };
        assert(h + (child_hist(a.drop_first(), m) + child_hist(b, m)) =~= (h + child_hist(a.drop_first(), m)) + child_hist(b, m));
    }
}
/// the number of occurrences of m at a level is the number of tags called m
pub proof fn lemma_level_occs_len(p: Seq<RdItem>, m: String)
    ensures level_occs(p, m).len() == occ(level_tags(p), m),
    decreases p.len()
{
    if p.len() > 0 {
        let rest = p.drop_first();
        match p[0] {
            RdItem::Err => {},
            RdItem::Ev(AbsEv::Eof) => {},
            RdItem::Ev(AbsEv::End) => {},
            RdItem::Ev(AbsEv::Empty(t)) => { lemma_level_occs_len(rest, m); lemma_occ_cons(t, level_tags(rest), m); },
            RdItem::Ev(AbsEv::Start(t)) => {
                if scan(rest).1.len() < p.len() {
                    lemma_level_occs_len(scan(rest).1, m);
                    lemma_occ_cons(t, level_tags(scan(rest).1), m);
                } else {
                    lemma_occ_cons(t, Seq::empty(), m);
                    assert(seq![t] + Seq::<Tag>::empty() =~= seq![t]);
                }
            },
            _ => { lemma_level_occs_len(rest, m); },
        }
    }
}
/// if no occurrence contains m, m has no occurrences of its own
pub proof fn lemma_child_hist_empty(occs: Seq<Option<Seq<RdItem>>>, m: String)
    requires !some_has(occs, m),
    ensures child_hist(occs, m).len() == 0,
    decreases occs.len()
{
    if occs.len() > 0 {
        let rest = occs.drop_first();
        assert(!some_has(rest, m)) by {
            if some_has(rest, m) { let i = choose|i: int| 0 <= i < rest.len() && occ_count(#[trigger] rest[i], m) > 0; assert(occ_count(occs[i + 1], m) > 0); }
        }
        lemma_child_hist_empty(rest, m);
        assert(occ_count(occs[0], m) == 0);
        match occs[0] { Some(c) => { lemma_level_occs_len(c, m); }, None => {} }
    }
}

// ---------------------------------------------------------------- composition of the closed form over lists of occurrences
pub proof fn lemma_preds_concat(a: Seq<Option<Seq<RdItem>>>, b: Seq<Option<Seq<RdItem>>>, m: String)
    ensures
        all_have(a + b, m) == (all_have(a, m) && all_have(b, m)),
        none_multi(a + b, m) == (none_multi(a, m) && none_multi(b, m)),
        some_has(a + b, m) == (some_has(a, m) || some_has(b, m)),
        some_text(a + b) == (some_text(a) || some_text(b)),
{
    let ab = a + b;
    assert(forall|i: int| 0 <= i < a.len() ==> (#[trigger] ab[i]) == a[i]);
    assert(forall|i: int| 0 <= i < b.len() ==> (#[trigger] b[i]) == ab[i + a.len()]);
    if all_have(ab, m) {
        assert forall|i: int| 0 <= i < a.len() implies occ_count(#[trigger] a[i], m) > 0 by { assert(ab[i] == a[i]); assert(occ_count(ab[i], m) > 0); }
        assert forall|i: int| 0 <= i < b.len() implies occ_count(#[trigger] b[i], m) > 0 by { assert(occ_count(ab[i + a.len()], m) > 0); }
    }
    if all_have(a, m) && all_have(b, m) {
        assert forall|i: int| 0 <= i < ab.len() implies occ_count(#[trigger] ab[i], m) > 0 by { if i < a.len() { assert(ab[i] == a[i]); } else { assert(ab[i] == b[i - a.len()]); } }
    }
    if none_multi(ab, m) {
        assert forall|i: int| 0 <= i < a.len() implies occ_count(#[trigger] a[i], m) <= 1 by { assert(ab[i] == a[i]); assert(occ_count(ab[i], m) <= 1); }
        assert forall|i: int| 0 <= i < b.len() implies occ_count(#[trigger] b[i], m) <= 1 by { assert(occ_count(ab[i + a.len()], m) <= 1); }
    }
    if none_multi(a, m) && none_multi(b, m) {
        assert forall|i: int| 0 <= i < ab.len() implies occ_count(#[trigger] ab[i], m) <= 1 by { if i < a.len() { assert(ab[i] == a[i]); } else { assert(ab[i] == b[i - a.len()]); } }
    }
    if some_has(ab, m) {
        let i = choose|i: int| 0 <= i < ab.len() && occ_count(#[trigger] ab[i], m) > 0;
        if i < a.len() { assert(ab[i] == a[i]); assert(occ_count(a[i], m) > 0); } else { assert(ab[i] == b[i - a.len()]); assert(occ_count(b[i - a.len()], m) > 0); }
    }
    if some_has(a, m) { let i = choose|i: int| 0 <= i < a.len() && occ_count(#[trigger] a[i], m) > 0; assert(occ_count(ab[i], m) > 0); }
    if some_has(b, m) { let i = choose|i: int| 0 <= i < b.len() && occ_count(#[trigger] b[i], m) > 0; assert(occ_count(ab[i + a.len()], m) > 0); }
    if some_text(ab) {
        let i = choose|i: int| 0 <= i < ab.len() && occ_text(#[trigger] ab[i]);
        if i < a.len() { assert(ab[i] == a[i]); assert(occ_text(a[i])); } else { assert(ab[i] == b[i - a.len()]); assert(occ_text(b[i - a.len()])); }
    }
    if some_text(a) { let i = choose|i: int| 0 <= i < a.len() && occ_text(#[trigger] a[i]); assert(occ_text(ab[i])); }
    if some_text(b) { let i = choose|i: int| 0 <= i < b.len() && occ_text(#[trigger] b[i]); assert(occ_text(ab[i + a.len()])); }
}
/// occurrences `a` absorbed from x give x2, then occurrences `b` absorbed from x2 give y
pub proof fn lemma_multi_compose_list(x: Option<GEl>, x2: GEl, y: GEl, a: Seq<Option<Seq<RdItem>>>, b: Seq<Option<Seq<RdItem>>>, m: String)
    requires
        forall|mm: String| #[trigger] multi_post(x, x2, a, mm),
        forall|mm: String| #[trigger] multi_post(Some(x2), y, b, mm),
        x is Some ==> g_uniq(x->Some_0.kids),
        x is Some || a.len() > 0,
    ensures multi_post(x, y, a + b, m),
{
    let xk = x_kids(x);
    assert(multi_post(x, x2, a, m));
    assert(multi_post(Some(x2), y, b, m));
    lemma_preds_concat(a, b, m);
    if g_has(y.kids, m) && counts_below_max(y.kids) {
        assert forall|mm: String| #[trigger] g_has(x2.kids, mm) implies g_has(y.kids, mm) && g_kid(y.kids, mm).val().count >= g_kid(x2.kids, mm).val().count by {
            assert(multi_post(Some(x2), y, b, mm));
        }
        lemma_below_max_back(x2.kids, y.kids);
    }
    // a child present in every occurrence of a non-empty list is present in some occurrence
    if a.len() > 0 && all_have(a, m) { assert(occ_count(a[0], m) > 0); assert(some_has(a, m)); }
    // a child absent from x2 occurs in no occurrence of `a`
    if !g_has(x2.kids, m) {
        assert(!some_has(a, m));
        assert forall|i: int| 0 <= i < a.len() implies occ_count(#[trigger] a[i], m) <= 1 by {
            if occ_count(a[i], m) > 0 { assert(some_has(a, m)); }
        }
    }
}
/// nothing absorbed: a node satisfies the closed form with respect to itself, to any depth
pub proof fn lemma_deep_refl(v: GEl, d: nat)
    requires g_wf(v),
    ensures deep_post(Some(v), v, Seq::empty(), d),
    decreases d
{
    if d > 0 {
        assert forall|m: String| #[trigger] multi_post(Some(v), v, Seq::empty(), m) by { lemma_multi_none(v, m); }
        assert forall|m: String| #[trigger] g_has(v.kids, m) implies deep_post(kid_opt(Some(v), m), g_kid(v.kids, m).val(), child_hist(Seq::empty(), m), (d - 1) as nat) by {
            lemma_has_witness(v.kids, m);
            assert(g_wf(v.kids[g_idx(v.kids, m)].val()));
            lemma_deep_refl(g_kid(v.kids, m).val(), (d - 1) as nat);
            assert(child_hist(Seq::<Option<Seq<RdItem>>>::empty(), m) =~= Seq::empty());
        }
    }
}

pub proof fn lemma_child_hist_nonempty(occs: Seq<Option<Seq<RdItem>>>, m: String)
    requires some_has(occs, m),
    ensures child_hist(occs, m).len() > 0,
    decreases occs.len()
{
    let i = choose|i: int| 0 <= i < occs.len() && occ_count(#[trigger] occs[i], m) > 0;
    if i == 0 {
        match occs[0] { Some(c) => { lemma_level_occs_len(c, m); }, None => {} }
    } else {
        let rest = occs.drop_first();
        assert(rest[i - 1] == occs[i]);
        assert(occ_count(rest[i - 1], m) > 0);
        lemma_child_hist_nonempty(rest, m);
    }
}
pub proof fn lemma_kid_wf(kids: Seq<Necessity<GEl>>, m: String)
    requires g_all_wf(kids), g_has(kids, m),
    ensures g_wf(g_kid(kids, m).val()),
{
    lemma_has_witness(kids, m);
}
/// closed forms to depth d compose over concatenated occurrence lists
pub proof fn lemma_deep_compose(x: Option<GEl>, x2: GEl, y: GEl, a: Seq<Option<Seq<RdItem>>>, b: Seq<Option<Seq<RdItem>>>, d: nat)
    requires
        deep_post(x, x2, a, d), deep_post(Some(x2), y, b, d),
        x is Some ==> g_wf(x->Some_0), g_wf(x2), g_wf(y),
        x is Some || a.len() > 0,
    ensures deep_post(x, y, a + b, d),
    decreases d
{
    if d > 0 {
        assert forall|m: String| #[trigger] multi_post(x, y, a + b, m) by {
            lemma_multi_compose_list(x, x2, y, a, b, m);
        }
        assert forall|m: String| #[trigger] g_has(y.kids, m) implies deep_post(kid_opt(x, m), g_kid(y.kids, m).val(), child_hist(a + b, m), (d - 1) as nat) by {
            lemma_child_hist_concat(a, b, m);
            assert(multi_post(x, x2, a, m));
            assert(multi_post(Some(x2), y, b, m));
            lemma_kid_wf(y.kids, m);
            if g_has(x2.kids, m) {
                lemma_kid_wf(x2.kids, m);
                if x is Some && g_has(x->Some_0.kids, m) { lemma_kid_wf(x->Some_0.kids, m); }
                if kid_opt(x, m) is None {
                    // m is new in x2, so it occurs in some occurrence of `a`
                    assert(some_has(a, m));
                    lemma_child_hist_nonempty(a, m);
                }
                lemma_deep_compose(kid_opt(x, m), g_kid(x2.kids, m).val(), g_kid(y.kids, m).val(), child_hist(a, m), child_hist(b, m), (d - 1) as nat);
            } else {
                assert(!some_has(a, m));
                lemma_child_hist_empty(a, m);
                assert(child_hist(a, m) + child_hist(b, m) =~= child_hist(b, m));
                assert(kid_opt(x, m) is None);
                assert(kid_opt(Some(x2), m) is None);
            }
        }
    }
}


pub proof fn lemma_child_hist_single(first: Option<Seq<RdItem>>, m: String)
    ensures child_hist(seq![first], m) == (match first { Some(c) => level_occs(c, m), None => Seq::empty() }),
{
    let o = seq![first];
    assert(o[0] == first);
    assert(o.drop_first() =~= Seq::<Option<Seq<RdItem>>>::empty());
    assert(child_hist(o.drop_first(), m) =~= Seq::<Option<Seq<RdItem>>>::empty());
    let h = match first { Some(c) => level_occs(c, m), None => Seq::empty() };
    assert(h + Seq::<Option<Seq<RdItem>>>::empty() =~= h);
}
/// what one occurrence step does to the grandchildren: the children of the updated child are, as values, the children
/// the content produced (or, for <n/>, the children it had); only their Mandatory/Optional tags may differ
pub proof fn lemma_occurrence_kids(s: GEl, t: Tag, known: Seq<String>, first: Option<Seq<RdItem>>, s2: GEl, m: String)
    requires
        g_wf(s), g_tag_ok(t),
        match first { Some(c) => g_occ_start(s, t, known, c) == Some(s2), None => g_occ_empty(s, t, known) == Some(s2) },
    ensures
        ({
            let n = utf8_str(t.name);
            let base = g_base(s, t, known);
            let src = match first { Some(c) => g_build(base, c, Seq::empty()).0->Some_0, None => base };
            &&& g_wf(s2) && g_has(s2.kids, n) && g_wf(base) && g_wf(src) && g_wf(g_kid(s2.kids, n).val())
            &&& (first is Some ==> g_build(base, first->Some_0, Seq::empty()).0 is Some)
            &&& base.kids == x_kids(kid_opt(Some(s), n))
            &&& g_has(g_kid(s2.kids, n).val().kids, m) == g_has(src.kids, m)
            &&& (g_has(src.kids, m) ==> g_kid(g_kid(s2.kids, n).val().kids, m).val() == g_kid(src.kids, m).val())
        }),
{
    let n = utf8_str(t.name);
    lemma_base_wf(s, t, known);
    lemma_g_idx(s.kids, n);
    let base = g_base(s, t, known);
    if g_has(s.kids, n) { assert(g_wf(s.kids[g_idx(s.kids, n)].val())); } else { assert(base.kids =~= Seq::<Necessity<GEl>>::empty()); }
    match first {
        Some(c) => {
            lemma_parse_tag_unfold(s, t, known, Some(c));
            let inner = g_build(base, c, Seq::empty());
            assert(inner.0 is Some);
            let c2 = inner.0->Some_0;
            lemma_build_wf(base, c, Seq::empty());
            let s1 = g_attach(s, n, c2);
            lemma_attach_wf(s, n, c2);
            lemma_attach_kids(s, n, c2, n);
            let cc = g_count_children(s, n);
            lemma_tag_opt_wf(s1, n, cc.0);
            lemma_tag_opt_kids(s1, n, cc.0, n);
            let x1 = g_kid(s1.kids, n).val();
            assert(x1.kids == c2.kids);
            if cc.1 {
                let names = g_to_optional_names(x1.kids, cc.0);
                lemma_demote_all_char(c2.kids, names, m);
                lemma_kid_wf(g_tag_opt(s1, n, cc.0).kids, n);
            } else {
                lemma_kid_wf(s1.kids, n);
            }
        },
        None => {
            lemma_parse_tag_unfold(s, t, known, None);
            let s1 = g_attach(s, n, base);
            lemma_attach_wf(s, n, base);
            lemma_attach_kids(s, n, base, n);
            lemma_tag_opt_wf(s1, n, Map::empty());
            lemma_tag_opt_kids(s1, n, Map::empty(), n);
            let x1 = g_kid(s1.kids, n).val();
            assert(x1.kids == base.kids);
            let names = g_to_optional_names(x1.kids, Map::<String, u32>::empty());
            lemma_demote_all_char(base.kids, names, m);
            lemma_kid_wf(g_tag_opt(s1, n, Map::empty()).kids, n);
        },
    }
}

/// THEOREM (C03 / C01 / C06, every depth): after a successful g_build(s, p, known) = w, the child called n satisfies the
/// closed form with respect to its occurrences at this level, and so do - recursively, to any depth d - its children
/// with respect to their occurrences inside those occurrences
pub proof fn theorem_deep(s: GEl, p: Seq<RdItem>, known: Seq<String>, n: String, d: nat)
    requires g_wf(s),
    ensures
        g_build(s, p, known).0 is Some ==> ({
            let w = g_build(s, p, known).0->Some_0;
            g_wf(w) && (g_has(w.kids, n) ==> deep_post(kid_opt(Some(s), n), g_kid(w.kids, n).val(), level_occs(p, n), d))
        }),
    decreases d, p.len(), 1int
{
    if g_build(s, p, known).0 is Some {
        lemma_build_wf(s, p, known);
        let w = g_build(s, p, known).0->Some_0;
        if d > 0 {
            if p.len() == 0 {
                if g_has(s.kids, n) { lemma_kid_wf(s.kids, n); lemma_deep_refl(g_kid(s.kids, n).val(), d); }
            } else {
                let rest = p.drop_first();
                match p[0] {
                    RdItem::Ev(AbsEv::Comment) | RdItem::Ev(AbsEv::Decl) | RdItem::Ev(AbsEv::PI) | RdItem::Ev(AbsEv::DocType) => { theorem_deep(s, rest, known, n, d); },
                    RdItem::Ev(AbsEv::Text(b)) | RdItem::Ev(AbsEv::CData(b)) => {
                        let s1 = GEl { text_some: true, ..s };
                        assert(g_wf(s1));
                        theorem_deep(s1, rest, known, n, d);
                    },
                    RdItem::Ev(AbsEv::Eof) | RdItem::Ev(AbsEv::End) => {
                        if g_has(s.kids, n) { lemma_kid_wf(s.kids, n); lemma_deep_refl(g_kid(s.kids, n).val(), d); }
                    },
                    RdItem::Err => {},
                    RdItem::Ev(AbsEv::Empty(t)) => {
                        lemma_build_is_occurrence_steps(s, p, known, t);
                        let s2 = g_occ_empty(s, t, known)->Some_0;
                        let k2 = g_parse_tag(s, t, known, None).1;
                        deep_step(s, p, known, n, d, t, s2, rest, k2, None);
                    },
                    RdItem::Ev(AbsEv::Start(t)) => {
                        let r = g_parse_tag(s, t, known, Some(rest));
                        assert(r.0 is Some && r.2.len() < p.len());
                        lemma_build_is_occurrence_steps(s, p, known, t);
                        let s2 = g_occ_start(s, t, known, rest)->Some_0;
                        lemma_parse_tag_unfold(s, t, known, Some(rest));
                        lemma_build_rest_scan(g_base(s, t, known), rest, Seq::empty());
                        deep_step(s, p, known, n, d, t, s2, r.2, r.1, Some(rest));
                    },
                }
            }
        }
    }
}
proof fn deep_step(s: GEl, p: Seq<RdItem>, known: Seq<String>, n: String, d: nat, t: Tag, s2: GEl, tail_stream: Seq<RdItem>, k2: Seq<String>, first: Option<Seq<RdItem>>)
    requires
        d > 0, g_wf(s), g_tag_ok(t), p.len() > 0, tail_stream.len() < p.len(),
        g_build(s, p, known).0 is Some,
        g_build(s, p, known) == g_build(s2, tail_stream, k2),
        match first { Some(c) => p[0] == RdItem::Ev(AbsEv::Start(t)) && c == p.drop_first() && g_occ_start(s, t, known, c) == Some(s2) && tail_stream == scan(c).1,
                      None => p[0] == RdItem::Ev(AbsEv::Empty(t)) && g_occ_empty(s, t, known) == Some(s2) && tail_stream == p.drop_first() },
    ensures
        ({
            let w = g_build(s, p, known).0->Some_0;
            g_has(w.kids, n) ==> deep_post(kid_opt(Some(s), n), g_kid(w.kids, n).val(), level_occs(p, n), d)
        }),
    decreases d, p.len(), 0int
{
    let nt = utf8_str(t.name);
    let w = g_build(s, p, known).0->Some_0;
    let x = kid_opt(Some(s), n);
    let tail = level_occs(tail_stream, n);
    lemma_occurrence_kids(s, t, known, first, s2, n);
    assert(g_wf(s2));
    theorem_deep(s2, tail_stream, k2, n, d);
    if g_has(w.kids, n) {
        let y = g_kid(w.kids, n).val();
        if nt != n {
            assert(level_occs(p, n) =~= tail);
            lemma_step_frame(s, t, known, first, s2, n);
        } else {
            let occs = seq![first] + tail;
            assert(level_occs(p, n) =~= occs);
            let x2 = g_kid(s2.kids, n).val();
            if x is Some { lemma_kid_wf(s.kids, n); }
            // (i) the closed form for the single occurrence `first`
            assert forall|mm: String| #[trigger] occ_post(x, x2, t, occ_count(first, mm), occ_text(first), mm) by {
                match first {
                    Some(c) => { theorem_occurrence_start(s, t, known, c, mm); },
                    None => { theorem_occurrence_empty(s, t, known, mm); },
                }
            }
            assert forall|mm: String| #[trigger] multi_post(x, x2, seq![first], mm) by {
                lemma_multi_single(x, x2, t, first, mm);
            }
            // (ii) ... and, one level down, for every child of x2 with respect to its occurrences inside `first`
            let base = g_base(s, t, known);
            assert forall|mm: String| #[trigger] g_has(x2.kids, mm) implies deep_post(kid_opt(x, mm), g_kid(x2.kids, mm).val(), child_hist(seq![first], mm), (d - 1) as nat) by {
                lemma_occurrence_kids(s, t, known, first, s2, mm);
                match first {
                    Some(c) => {
                        lemma_child_hist_single(first, mm);
                        theorem_deep(base, c, Seq::empty(), mm, (d - 1) as nat);
                        assert(kid_opt(Some(base), mm) == kid_opt(x, mm));
                    },
                    None => {
                        lemma_child_hist_single(first, mm);
                        lemma_kid_wf(base.kids, mm);
                        lemma_deep_refl(g_kid(base.kids, mm).val(), (d - 1) as nat);
                        assert(kid_opt(x, mm) == Some(g_kid(base.kids, mm).val()));
                    },
                }
            }
            assert(deep_post(x, x2, seq![first], d));
            lemma_kid_wf(w.kids, n);
            lemma_deep_compose(x, x2, y, seq![first], tail, d);
        }
    }
}

// ---------------------------------------------------------------- the two public entry points, statement level
pub open spec fn all_named(ts: Seq<Tag>, n: String) -> bool { forall|i: int| 0 <= i < ts.len() ==> utf8_str((#[trigger] ts[i]).name) == n }
pub proof fn lemma_occ_zero(ts: Seq<Tag>, n: String, m: String)
    requires all_named(ts, n), m != n,
    ensures occ(ts, m) == 0,
    decreases ts.len()
{
    if ts.len() > 0 {
        assert(utf8_str(ts[0].name) == n);
        assert(forall|i: int| 0 <= i < ts.drop_first().len() ==> (#[trigger] ts.drop_first()[i]) == ts[i + 1]);
        lemma_occ_zero(ts.drop_first(), n, m);
    }
}
/// if every element at the top level of the stream is called n and the node has at most the one child n, the result has
/// exactly the children it had plus possibly n: in particular its first child is the child called n
pub proof fn lemma_single_root(s: GEl, p: Seq<RdItem>, n: String)
    requires
        g_wf(s), all_named(level_tags(p), n),
        forall|i: int| 0 <= i < s.kids.len() ==> (#[trigger] s.kids[i]).val().name == n,
        g_build(s, p, Seq::empty()).0 is Some,
    ensures
        ({
            let w = g_build(s, p, Seq::empty()).0->Some_0;
            &&& w.kids.len() <= 1
            &&& (w.kids.len() == 1 ==> g_has(w.kids, n) && w.kids[0] == g_kid(w.kids, n))
        }),
{
    let w = g_build(s, p, Seq::empty()).0->Some_0;
    lemma_build_wf(s, p, Seq::empty());
    assert forall|i: int| 0 <= i < w.kids.len() implies (#[trigger] w.kids[i]).val().name == n by {
        let m = w.kids[i].val().name;
        lemma_kid_is(w.kids, m, i);
        if m != n {
            lemma_level(s, p, Seq::empty(), m);
            lemma_occ_zero(level_tags(p), n, m);
            lemma_has_witness(s.kids, m);
        }
    }
    if w.kids.len() >= 2 { assert(w.kids[0].val().name != w.kids[1].val().name); }
    if w.kids.len() == 1 { lemma_kid_is(w.kids, n, 0); }
}
/// THEOREM (public API, statement level): extending the structure `prev` with a document whose top-level elements are all
/// called like `prev` yields a tree that satisfies the closed form, to every depth d, with respect to `prev` and the
/// occurrences of that element in the document
pub proof fn theorem_extend(nm: String, prev: GEl, p: Seq<RdItem>, d: nat)
    requires g_wf(prev), all_named(level_tags(p), prev.name), g_build(g_wrap(nm, prev), p, Seq::empty()).0 is Some,
    ensures
        g_first_child(g_wrap(nm, prev), p) is Some,
        deep_post(Some(GEl { position: if prev.position is None { Some(0usize) } else { prev.position }, ..prev }),
                  g_first_child(g_wrap(nm, prev), p)->Some_0, level_occs(p, prev.name), d),
{
    let s = g_wrap(nm, prev);
    let n = prev.name;
    let prev2 = GEl { position: if prev.position is None { Some(0usize) } else { prev.position }, ..prev };
    assert(g_wf(prev2));
    assert(g_wf(s)) by { assert(s.kids.len() == 1); assert(s.kids[0].val() == prev2); }
    lemma_kid_is(s.kids, n, 0);
    lemma_single_root(s, p, n);
    lemma_build_kids_len(s, p, Seq::empty());
    theorem_deep(s, p, Seq::empty(), n, d);
}
/// THEOREM (public API, statement level): the structure inferred from a first document whose top-level elements are all
/// called n satisfies the closed form, to every depth d, with respect to the occurrences of n (nothing known before)
pub proof fn theorem_into(nm: String, n: String, p: Seq<RdItem>, d: nat)
    requires all_named(level_tags(p), n), g_first_child(g_root(nm), p) is Some,
    ensures deep_post(None, g_first_child(g_root(nm), p)->Some_0, level_occs(p, n), d),
{
    let s = g_root(nm);
    assert(g_wf(s));
    lemma_single_root(s, p, n);
    theorem_deep(s, p, Seq::empty(), n, d);
    lemma_kid_none(s.kids, n);
}

} // verus!
