//! Verif-owned specification modules, injected into the scratch copy of the crate as `mod vspec;`.
//! Nothing here is executable code of the repository; everything is `spec`/`proof` mode or an
//! assumed contract of an external function.
#![allow(unused_imports)]
pub mod boundary;
pub mod nec;
pub mod tree;
pub mod c16;
pub mod ghost;
pub mod pspec;
pub mod perr;
pub mod layer_e;
pub mod gl;
pub mod c11;
pub mod t2;
pub mod t2b;
pub mod t2c;
pub mod attrs;
pub mod c09;
pub mod c15;
pub mod c06;
pub use boundary::*;
pub use nec::*;
pub use tree::*;
pub use c16::*;
pub use ghost::*;
pub use pspec::*;
pub use perr::*;
pub use layer_e::*;
pub use gl::*;
pub use c11::*;
pub use t2::*;
pub use t2b::*;
pub use t2c::*;
pub use attrs::*;
pub use c09::*;
pub use c15::*;
pub use c06::*;
