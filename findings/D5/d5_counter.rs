use xml_schema_generator::Element;
/// D5: the occurrence counter is a u32 that `increment` bumps unchecked; after 2^32-1 increments
/// (2^32 occurrences of one child under one parent while parsing) the next one overflows.
#[test]
fn counter_does_not_panic_after_u32_max_occurrences() {
    let mut e = Element::new("a", Vec::<&str>::new());
    for _ in 0..u32::MAX {
        e.increment();
    }
    assert_eq!(e.count(), u32::MAX);
}
