//! Read the derived `Debug` output of `Element<String>` back into a plain tree (`V`), so that the harness can
//! observe every field (attributes, position, internal order) through the public API only.

#[derive(Clone, Debug, PartialEq)]
pub struct V {
    pub name: String,
    pub text: bool,
    pub standalone: bool,
    pub count: u64,
    pub attrs: Vec<(bool, String)>, // (mandatory, name) in internal order
    pub kids: Vec<(bool, V)>,       // (mandatory, child) in internal order
    pub position: Option<u64>,
}

impl V {
    /// children in the order the renderer uses for SortBy::Unsorted
    pub fn kids_by_position(&self) -> Vec<&(bool, V)> {
        let mut k: Vec<&(bool, V)> = self.kids.iter().collect();
        k.sort_by_key(|c| c.1.position);
        k
    }
}

#[derive(Debug, Clone)]
enum Val {
    Str(String),
    Num(u64),
    Bool(bool),
    Ctor(String, Vec<Val>),             // Name or Name(args)
    Struct(String, Vec<(String, Val)>), // Name { f: v, .. }
    List(Vec<Val>),
}

struct P<'a> {
    s: &'a [u8],
    i: usize,
}

impl<'a> P<'a> {
    fn ws(&mut self) {
        while self.i < self.s.len() && (self.s[self.i] as char).is_whitespace() {
            self.i += 1;
        }
    }
    fn eat(&mut self, c: u8) -> Result<(), String> {
        self.ws();
        if self.i < self.s.len() && self.s[self.i] == c {
            self.i += 1;
            Ok(())
        } else {
            Err(format!("expected {:?} at {}", c as char, self.i))
        }
    }
    fn peek(&mut self) -> Option<u8> {
        self.ws();
        self.s.get(self.i).copied()
    }
    fn val(&mut self) -> Result<Val, String> {
        match self.peek().ok_or("eof")? {
            b'"' => {
                // string literal with Rust debug escapes; we only need to find its end and keep the raw text
                self.i += 1;
                let mut out = Vec::new();
                while self.i < self.s.len() && self.s[self.i] != b'"' {
                    if self.s[self.i] == b'\\' && self.i + 1 < self.s.len() {
                        out.push(self.s[self.i]);
                        self.i += 1;
                    }
                    out.push(self.s[self.i]);
                    self.i += 1;
                }
                self.i += 1;
                Ok(Val::Str(String::from_utf8_lossy(&out).into_owned()))
            }
            b'[' => {
                self.i += 1;
                let mut v = Vec::new();
                loop {
                    if self.peek() == Some(b']') {
                        self.i += 1;
                        break;
                    }
                    v.push(self.val()?);
                    if self.peek() == Some(b',') {
                        self.i += 1;
                    }
                }
                Ok(Val::List(v))
            }
            c if c.is_ascii_digit() => {
                let st = self.i;
                while self.i < self.s.len() && self.s[self.i].is_ascii_digit() {
                    self.i += 1;
                }
                Ok(Val::Num(std::str::from_utf8(&self.s[st..self.i]).unwrap().parse().map_err(|e| format!("{e}"))?))
            }
            _ => {
                let st = self.i;
                while self.i < self.s.len() && (self.s[self.i].is_ascii_alphanumeric() || self.s[self.i] == b'_') {
                    self.i += 1;
                }
                if st == self.i {
                    return Err(format!("unexpected byte at {}", self.i));
                }
                let id = std::str::from_utf8(&self.s[st..self.i]).unwrap().to_string();
                if id == "true" {
                    return Ok(Val::Bool(true));
                }
                if id == "false" {
                    return Ok(Val::Bool(false));
                }
                match self.peek() {
                    Some(b'(') => {
                        self.i += 1;
                        let mut v = Vec::new();
                        loop {
                            if self.peek() == Some(b')') {
                                self.i += 1;
                                break;
                            }
                            v.push(self.val()?);
                            if self.peek() == Some(b',') {
                                self.i += 1;
                            }
                        }
                        Ok(Val::Ctor(id, v))
                    }
                    Some(b'{') => {
                        self.i += 1;
                        let mut f = Vec::new();
                        loop {
                            if self.peek() == Some(b'}') {
                                self.i += 1;
                                break;
                            }
                            let st = self.i;
                            while self.i < self.s.len() && (self.s[self.i].is_ascii_alphanumeric() || self.s[self.i] == b'_') {
                                self.i += 1;
                            }
                            let name = std::str::from_utf8(&self.s[st..self.i]).unwrap().to_string();
                            self.eat(b':')?;
                            let v = self.val()?;
                            f.push((name, v));
                            if self.peek() == Some(b',') {
                                self.i += 1;
                            }
                        }
                        Ok(Val::Struct(id, f))
                    }
                    _ => Ok(Val::Ctor(id, vec![])),
                }
            }
        }
    }
}

fn field<'a>(f: &'a [(String, Val)], n: &str) -> Result<&'a Val, String> {
    f.iter().find(|(k, _)| k == n).map(|(_, v)| v).ok_or_else(|| format!("field {n} missing in Debug output of Element"))
}

fn necessity(v: &Val) -> Result<(bool, &Val), String> {
    match v {
        Val::Ctor(n, a) if n == "Mandatory" && a.len() == 1 => Ok((true, &a[0])),
        Val::Ctor(n, a) if n == "Optional" && a.len() == 1 => Ok((false, &a[0])),
        _ => Err(format!("expected Mandatory(..)/Optional(..), got {:?}", v)),
    }
}

fn to_v(v: &Val) -> Result<V, String> {
    let f = match v {
        Val::Struct(n, f) if n == "Element" => f,
        _ => return Err("expected Element { .. }".into()),
    };
    let name = match field(f, "name")? {
        Val::Str(s) => s.clone(),
        _ => return Err("name".into()),
    };
    let text = matches!(field(f, "text")?, Val::Ctor(n, _) if n == "Some");
    let standalone = matches!(field(f, "standalone")?, Val::Bool(true));
    let count = match field(f, "count")? {
        Val::Num(n) => *n,
        _ => 0,
    };
    let mut attrs = Vec::new();
    if let Val::List(l) = field(f, "attributes")? {
        for a in l {
            let (m, x) = necessity(a)?;
            if let Val::Str(s) = x {
                attrs.push((m, s.clone()));
            }
        }
    }
    let mut kids = Vec::new();
    if let Val::List(l) = field(f, "children")? {
        for a in l {
            let (m, x) = necessity(a)?;
            kids.push((m, to_v(x)?));
        }
    }
    let position = match field(f, "position")? {
        Val::Ctor(n, a) if n == "Some" => match a.first() {
            Some(Val::Num(k)) => Some(*k),
            _ => None,
        },
        _ => None,
    };
    Ok(V { name, text, standalone, count, attrs, kids, position })
}

pub fn view(e: &xml_schema_generator::Element<String>) -> Result<V, String> {
    let s = format!("{:?}", e);
    let mut p = P { s: s.as_bytes(), i: 0 };
    let v = p.val()?;
    to_v(&v)
}
