//! Statement-level oracles, computed from a DOM of the inputs (independent of the library and of the Verus specs):
//!   mandatory  <=> present in every occurrence of the parent position
//!   standalone <=> no occurrence of the parent position contains the child more than once
//!   text       <=> some occurrence has a text or CDATA node
//!   order      =   first appearance

use crate::gen::Node;
use crate::view::V;

#[derive(Clone, Debug, PartialEq)]
pub struct S {
    pub name: String,
    pub text: bool,
    pub attrs: Vec<(bool, String)>,    // first-appearance order
    pub kids: Vec<(bool, bool, S)>,    // (mandatory, standalone, schema) first-appearance order
}

pub fn infer(occ: &[&Node]) -> S {
    let name = occ[0].name.clone();
    let mut attrs: Vec<(bool, String)> = Vec::new();
    for o in occ {
        for a in &o.attrs {
            if !attrs.iter().any(|(_, n)| n == a) {
                attrs.push((true, a.clone()));
            }
        }
    }
    for a in attrs.iter_mut() {
        a.0 = occ.iter().all(|o| o.attrs.iter().any(|x| *x == a.1));
    }
    let text = occ.iter().any(|o| o.text != 0);
    let mut names: Vec<String> = Vec::new();
    for o in occ {
        for k in &o.kids {
            if !names.contains(&k.name) {
                names.push(k.name.clone());
            }
        }
    }
    let mut kids = Vec::new();
    for n in names {
        let mandatory = occ.iter().all(|o| o.kids.iter().any(|k| k.name == n));
        let standalone = occ.iter().all(|o| o.kids.iter().filter(|k| k.name == n).count() <= 1);
        let sub: Vec<&Node> = occ.iter().flat_map(|o| o.kids.iter().filter(|k| k.name == n)).collect();
        kids.push((mandatory, standalone, infer(&sub)));
    }
    S { name, text, attrs, kids }
}

fn sorted<T: Clone + Ord>(v: &[T]) -> Vec<T> {
    let mut w = v.to_vec();
    w.sort();
    w
}

/// C03: exact agreement of content (order-insensitive); `path` is for the message
pub fn cmp_exact(v: &V, s: &S, path: &str) -> Option<String> {
    let p = format!("{}/{}", path, s.name);
    if v.name != s.name {
        return Some(format!("{p}: node is named {:?}", v.name));
    }
    if v.text != s.text {
        return Some(format!("{p}: text flag is {} but {} occurrence has character data", v.text, if s.text { "some" } else { "no" }));
    }
    let va = sorted(&v.attrs.iter().map(|(m, n)| (n.clone(), *m)).collect::<Vec<_>>());
    let sa = sorted(&s.attrs.iter().map(|(m, n)| (n.clone(), *m)).collect::<Vec<_>>());
    if va != sa {
        return Some(format!("{p}: attributes (name, mandatory) are {:?}, the documents determine {:?}", va, sa));
    }
    let vk = sorted(&v.kids.iter().map(|(m, c)| (c.name.clone(), *m, c.standalone)).collect::<Vec<_>>());
    let sk = sorted(&s.kids.iter().map(|(m, st, c)| (c.name.clone(), *m, *st)).collect::<Vec<_>>());
    if vk != sk {
        return Some(format!("{p}: children (name, mandatory, single) are {:?}, the documents determine {:?}", vk, sk));
    }
    for (_, _, c) in &s.kids {
        let vc = &v.kids.iter().find(|(_, x)| x.name == c.name).unwrap().1;
        if let Some(e) = cmp_exact(vc, c, &p) {
            return Some(e);
        }
    }
    None
}

/// C09 (tree half): attributes in first-appearance order; children ordered by `position` in first-appearance order
pub fn cmp_order(v: &V, s: &S, path: &str) -> Option<String> {
    let p = format!("{}/{}", path, s.name);
    let va: Vec<&String> = v.attrs.iter().map(|(_, n)| n).collect();
    let sa: Vec<&String> = s.attrs.iter().map(|(_, n)| n).collect();
    if va != sa {
        return Some(format!("{p}: attribute order is {:?}, first-appearance order is {:?}", va, sa));
    }
    let vk: Vec<&String> = v.kids_by_position().iter().map(|(_, c)| &c.name).collect();
    let sk: Vec<&String> = s.kids.iter().map(|(_, _, c)| &c.name).collect();
    if vk != sk {
        return Some(format!("{p}: children ordered by position are {:?}, first-appearance order is {:?}", vk, sk));
    }
    for (_, _, c) in &s.kids {
        if let Some((_, vc)) = v.kids.iter().find(|(_, x)| x.name == c.name) {
            if let Some(e) = cmp_order(vc, c, &p) {
                return Some(e);
            }
        }
    }
    None
}

/// C01: the tree admits the document node `n` at this position (=> directions only)
pub fn admits(v: &V, n: &Node, path: &str) -> Option<String> {
    let p = format!("{}/{}", path, n.name);
    if n.text != 0 && !v.text {
        return Some(format!("{p}: occurrence has character data but the node has no text"));
    }
    for a in &n.attrs {
        if !v.attrs.iter().any(|(_, x)| x == a) {
            return Some(format!("{p}: attribute {a:?} of an occurrence has no entry"));
        }
    }
    for (m, a) in &v.attrs {
        if *m && !n.attrs.contains(a) {
            return Some(format!("{p}: attribute {a:?} is mandatory but an occurrence lacks it"));
        }
    }
    for k in &n.kids {
        if !v.kids.iter().any(|(_, c)| c.name == k.name) {
            return Some(format!("{p}: child {:?} of an occurrence has no entry", k.name));
        }
    }
    for (m, c) in &v.kids {
        let cnt = n.kids.iter().filter(|k| k.name == c.name).count();
        if *m && cnt == 0 {
            return Some(format!("{p}: child {:?} is mandatory but an occurrence lacks it", c.name));
        }
        if c.standalone && cnt > 1 {
            return Some(format!("{p}: child {:?} is single but an occurrence has it {cnt} times", c.name));
        }
    }
    let names: Vec<&String> = {
        let mut s: Vec<&String> = Vec::new();
        for (_, c) in &v.kids {
            if s.contains(&&c.name) {
                return Some(format!("{p}: two children named {:?}", c.name));
            }
            s.push(&c.name);
        }
        s
    };
    let _ = names;
    for k in &n.kids {
        let vc = &v.kids.iter().find(|(_, c)| c.name == k.name).unwrap().1;
        if let Some(e) = admits(vc, k, &p) {
            return Some(e);
        }
    }
    None
}

/// order-insensitive schema view (fields, optionality, multiplicity, text, nesting) used by C06
pub fn schema_view(v: &V) -> String {
    let mut a: Vec<String> = v.attrs.iter().map(|(m, n)| format!("@{}{}", n, if *m { "" } else { "?" })).collect();
    a.sort();
    let mut k: Vec<String> = v.kids.iter().map(|(m, c)| format!("{}{}{}", if *m { "" } else { "?" }, if c.standalone { "" } else { "*" }, schema_view(c))).collect();
    k.sort();
    format!("{}{}[{}|{}]", v.name, if v.text { "#" } else { "" }, a.join(","), k.join(","))
}

/// C06 monotonicity: nothing is dropped, no Option becomes required, no Vec becomes single
pub fn monotone(before: &V, after: &V, path: &str) -> Option<String> {
    let p = format!("{}/{}", path, before.name);
    if before.text && !after.text {
        return Some(format!("{p}: text field dropped"));
    }
    for (m, a) in &before.attrs {
        match after.attrs.iter().find(|(_, x)| x == a) {
            None => return Some(format!("{p}: attribute {a:?} dropped")),
            Some((m2, _)) => {
                if !*m && *m2 {
                    return Some(format!("{p}: optional attribute {a:?} became required"));
                }
            }
        }
    }
    for (m, c) in &before.kids {
        match after.kids.iter().find(|(_, x)| x.name == c.name) {
            None => return Some(format!("{p}: child {:?} dropped", c.name)),
            Some((m2, c2)) => {
                if !*m && *m2 {
                    return Some(format!("{p}: optional child {:?} became required", c.name));
                }
                if !c.standalone && c2.standalone {
                    return Some(format!("{p}: repeated child {:?} became single", c.name));
                }
                if let Some(e) = monotone(c, c2, &p) {
                    return Some(e);
                }
            }
        }
    }
    None
}
