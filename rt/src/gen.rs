//! Small documents as trees, their XML text in several spellings, exhaustive enumeration and a seeded RNG.

#[derive(Clone, Debug, PartialEq, Eq, Hash)]
pub struct Node {
    pub name: String,
    pub attrs: Vec<String>,
    pub text: u8, // 0 none, 1 text, 2 CDATA
    pub kids: Vec<Node>,
}

#[derive(Clone, Debug)]
pub struct Style {
    pub short_empty: bool, // <x/> instead of <x></x> for elements without content
    pub decl: bool,
    pub doctype: bool,
    pub comments: bool,
    pub pi: bool,
    pub swap_cdata: bool, // text <-> CDATA
    pub alt_values: bool, // other attribute values and other non-empty text
    pub text_last: bool,  // character data after the child elements instead of before them
    pub entity_text: bool, // text is a reference to an entity declared in the DOCTYPE's internal subset
    pub name_text: u8,     // 0 off; 1 text = the parent's tag name; 2 text = the element's first attribute name (or its own name); 3 text = "same" everywhere
}

impl Default for Style {
    fn default() -> Self {
        Style { short_empty: true, decl: false, doctype: false, comments: false, pi: false, swap_cdata: false, alt_values: false, text_last: false, entity_text: false, name_text: 0 }
    }
}

pub fn write_doc(root: &Node, st: &Style) -> String {
    let mut s = String::new();
    if st.decl {
        s.push_str("<?xml version=\"1.0\" encoding=\"UTF-8\"?>");
    }
    if st.entity_text {
        s.push_str("<!DOCTYPE r [<!ENTITY co \"ACME Corp.\">]>");
    } else if st.doctype {
        s.push_str("<!DOCTYPE r>");
    }
    if st.comments {
        s.push_str("<!-- lead -->");
    }
    write_node(root, st, &mut s, "top");
    if st.comments {
        s.push_str("<!-- trail -->");
    }
    s
}

fn write_node(n: &Node, st: &Style, s: &mut String, parent: &str) {
    s.push('<');
    s.push_str(&n.name);
    for (i, a) in n.attrs.iter().enumerate() {
        s.push(' ');
        s.push_str(a);
        if st.alt_values {
            s.push_str(&format!("=\"other value {}\"", i * 7 + 3));
        } else {
            s.push_str(&format!("=\"v{}\"", i));
        }
    }
    if n.kids.is_empty() && n.text == 0 {
        if st.short_empty {
            s.push_str("/>");
        } else if st.comments {
            // an element whose only content is a comment
            s.push_str("><!--only a comment--></");
            s.push_str(&n.name);
            s.push('>');
        } else {
            s.push_str("></");
            s.push_str(&n.name);
            s.push('>');
        }
        return;
    }
    s.push('>');
    if st.comments {
        s.push_str("<!--c-->");
    }
    let t = if st.swap_cdata && n.text != 0 { 3 - n.text } else { n.text };
    let nt: String = match st.name_text { 1 => parent.to_string(), 2 => n.attrs.first().cloned().unwrap_or_else(|| n.name.clone()), 3 => "same".to_string(), _ => String::new() };
    let body = if st.name_text != 0 { nt.as_str() } else if st.entity_text { "&co;" } else if st.alt_values { "something &amp; else" } else { "t" };
    let mut txt = String::new();
    match t {
        1 => txt.push_str(body),
        2 => {
            txt.push_str("<![CDATA[");
            txt.push_str(if st.entity_text { "co" } else { body });
            txt.push_str("]]>");
        }
        _ => {}
    }
    if !st.text_last {
        s.push_str(&txt);
    }
    for k in &n.kids {
        if st.pi {
            s.push_str("<?pi x?>");
        }
        write_node(k, st, s, &n.name);
    }
    if st.text_last {
        s.push_str(&txt);
    }
    s.push_str("</");
    s.push_str(&n.name);
    s.push('>');
}

#[derive(Clone)]
pub struct Labels {
    pub names: Vec<&'static str>,
    pub attr_opts: Vec<Vec<&'static str>>,
    pub text_opts: Vec<u8>,
}

/// all forests with exactly `n` nodes (ordered trees, every labelling)
pub fn forests(n: usize, lab: &Labels, memo: &mut Vec<Option<Vec<Vec<Node>>>>) -> Vec<Vec<Node>> {
    if let Some(Some(v)) = memo.get(n) {
        return v.clone();
    }
    let mut out = Vec::new();
    if n == 0 {
        out.push(Vec::new());
    } else {
        // first tree has k nodes, the rest of the forest n-k
        for k in 1..=n {
            let sub = forests(k - 1, lab, memo);
            let rest = forests(n - k, lab, memo);
            for name in &lab.names {
                for at in &lab.attr_opts {
                    for tx in &lab.text_opts {
                        for kids in &sub {
                            let t = Node { name: name.to_string(), attrs: at.iter().map(|s| s.to_string()).collect(), text: *tx, kids: kids.clone() };
                            for r in &rest {
                                let mut f = Vec::with_capacity(r.len() + 1);
                                f.push(t.clone());
                                f.extend(r.iter().cloned());
                                out.push(f);
                            }
                        }
                    }
                }
            }
        }
    }
    while memo.len() <= n {
        memo.push(None);
    }
    memo[n] = Some(out.clone());
    out
}

/// documents `<r ..>forest</r>` with at most `max_nodes` nodes below the root
pub fn docs(max_nodes: usize, lab: &Labels, root_variants: bool) -> Vec<Node> {
    let mut memo = Vec::new();
    let mut out = Vec::new();
    for n in 0..=max_nodes {
        for f in forests(n, lab, &mut memo) {
            if root_variants {
                for at in &lab.attr_opts {
                    for tx in &lab.text_opts {
                        out.push(Node { name: "r".into(), attrs: at.iter().map(|s| s.to_string()).collect(), text: *tx, kids: f.clone() });
                    }
                }
            } else {
                out.push(Node { name: "r".into(), attrs: vec![], text: 0, kids: f });
            }
        }
    }
    out
}

pub struct Rng(pub u64);
impl Rng {
    pub fn next(&mut self) -> u64 {
        // splitmix64
        self.0 = self.0.wrapping_add(0x9E3779B97F4A7C15);
        let mut z = self.0;
        z = (z ^ (z >> 30)).wrapping_mul(0xBF58476D1CE4E5B9);
        z = (z ^ (z >> 27)).wrapping_mul(0x94D049BB133111EB);
        z ^ (z >> 31)
    }
    pub fn below(&mut self, n: usize) -> usize {
        (self.next() % (n as u64)) as usize
    }
    pub fn chance(&mut self, num: usize, den: usize) -> bool {
        self.below(den) < num
    }
}

pub fn random_tree(rng: &mut Rng, names: &[&str], attrs: &[&str], depth: usize, budget: &mut usize) -> Node {
    let name = names[rng.below(names.len())].to_string();
    let mut at = Vec::new();
    for a in attrs {
        if rng.chance(1, 3) {
            at.push(a.to_string());
        }
    }
    if rng.chance(1, 4) {
        at.reverse();
    }
    let text = if rng.chance(1, 3) { 1 + rng.below(2) as u8 } else { 0 };
    let mut kids = Vec::new();
    if depth > 0 {
        let n = rng.below(if *budget > 9 { 7 } else { 4 });
        for _ in 0..n {
            if *budget == 0 {
                break;
            }
            *budget -= 1;
            kids.push(random_tree(rng, names, attrs, depth - 1, budget));
        }
    }
    Node { name, attrs: at, text, kids }
}

pub fn random_doc(rng: &mut Rng, names: &[&str], attrs: &[&str], depth: usize, max_nodes: usize) -> Node {
    let mut budget = max_nodes;
    let mut r = random_tree(rng, names, attrs, depth, &mut budget);
    r.name = "r".into();
    r
}
