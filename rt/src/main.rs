//! xsg_rt - executes the REAL library on generated inputs and compares with statement-level oracles.
//!   xsg_rt search <property> <tier> <seed>      bounded search; prints one JSON object per line:
//!                                                {"witness":{...}} for the first counterexample, then {"stats":{...}}
//!   xsg_rt docs <property> <file>...            re-check one document sequence (replay)
//!   xsg_rt merge <listA> <listB>                re-check one merge, lists like "M1,O2,M3" ("-" = empty)
//!   xsg_rt ops <op>...                          re-check one operation sequence, ops like add:a opt:a rem:a readd
//!   xsg_rt bytes <property> <file>...           re-check raw inputs (C07, C08)
mod gen;
mod oracle;
mod view;

use gen::{docs, random_doc, write_doc, Labels, Node, Rng, Style};
use oracle::{admits, cmp_exact, cmp_order, infer, monotone, schema_view};
use quick_xml::events::Event;
use quick_xml::reader::Reader;
use std::collections::HashSet;
use std::io::BufReader;
use view::{view, V};
use xml_schema_generator::{extend_struct, into_struct, merge_necessity, Element, Necessity, Options, ParserError, SortBy};

fn esc(s: &str) -> String {
    let mut o = String::new();
    for c in s.chars() {
        match c {
            '"' => o.push_str("\\\""),
            '\\' => o.push_str("\\\\"),
            '\n' => o.push_str("\\n"),
            '\r' => o.push_str("\\r"),
            '\t' => o.push_str("\\t"),
            c if (c as u32) < 0x20 => o.push_str(&format!("\\u{:04x}", c as u32)),
            c => o.push(c),
        }
    }
    o
}
fn hex(b: &[u8]) -> String {
    b.iter().map(|x| format!("{:02x}", x)).collect()
}

struct Stats {
    evals: u64,
    distinct: HashSet<u64>,
}
impl Stats {
    fn new() -> Self {
        Stats { evals: 0, distinct: HashSet::new() }
    }
    fn note(&mut self, key: &str) {
        use std::hash::{Hash, Hasher};
        let mut h = std::collections::hash_map::DefaultHasher::new();
        key.hash(&mut h);
        self.evals += 1;
        self.distinct.insert(h.finish());
    }
    fn print(&self, rule: &str, sample: &str) {
        let sample: String = sample.chars().take(400).collect();
        let sample = sample.as_str();
        println!("{{\"stats\":{{\"evaluations\":{},\"distinct_nontrivial\":{},\"rule\":\"{}\",\"sample\":\"{}\"}}}}", self.evals, self.distinct.len(), esc(rule), esc(sample));
    }
}

// ------------------------------------------------------------------------------------------------ DOM from text
fn dom(xml: &[u8]) -> Option<Node> {
    let mut r = Reader::from_reader(xml);
    let mut stack: Vec<Node> = vec![Node { name: "#top".into(), attrs: vec![], text: 0, kids: vec![] }];
    let mut buf = Vec::new();
    loop {
        match r.read_event_into(&mut buf) {
            Ok(Event::Start(e)) => {
                let mut n = Node { name: String::from_utf8(e.name().as_ref().to_vec()).ok()?, attrs: vec![], text: 0, kids: vec![] };
                for a in e.attributes() {
                    n.attrs.push(String::from_utf8(a.ok()?.key.as_ref().to_vec()).ok()?);
                }
                stack.push(n);
            }
            Ok(Event::Empty(e)) => {
                let mut n = Node { name: String::from_utf8(e.name().as_ref().to_vec()).ok()?, attrs: vec![], text: 0, kids: vec![] };
                for a in e.attributes() {
                    n.attrs.push(String::from_utf8(a.ok()?.key.as_ref().to_vec()).ok()?);
                }
                stack.last_mut()?.kids.push(n);
            }
            Ok(Event::End(_)) => {
                let n = stack.pop()?;
                stack.last_mut()?.kids.push(n);
            }
            Ok(Event::Text(_)) => {
                let t = stack.last_mut()?;
                if t.text == 0 {
                    t.text = 1
                }
            }
            Ok(Event::CData(_)) => {
                let t = stack.last_mut()?;
                if t.text == 0 {
                    t.text = 2
                }
            }
            Ok(Event::Eof) => break,
            Ok(_) => {}
            Err(_) => return None,
        }
        buf.clear();
    }
    if stack.len() != 1 {
        return None;
    }
    let mut top = stack.pop()?;
    if top.kids.is_empty() {
        return None;
    }
    Some(top.kids.remove(0))
}

fn parse_seq(docs: &[Vec<u8>]) -> Result<Element<String>, String> {
    let mut it = docs.iter();
    let first = it.next().ok_or("no document")?;
    let mut root = into_struct(&mut Reader::from_reader(first.as_slice())).map_err(|e| format!("into_struct: {e}"))?;
    for d in it {
        root = extend_struct(&mut Reader::from_reader(d.as_slice()), root).map_err(|e| format!("extend_struct: {e}"))?;
    }
    Ok(root)
}

// ------------------------------------------------------------------------------------------------ rendered text
/// (struct name, [(field ident, type text)]) in order of appearance
fn parse_rendered(src: &str) -> Vec<(String, Vec<(String, String)>)> {
    parse_rendered_full(src).into_iter().map(|(n, f)| (n, f.into_iter().map(|(i, t, _)| (i, t)).collect())).collect()
}
/// (struct name, [(field ident, type text, serde name = rename attribute or the ident)])
fn parse_rendered_full(src: &str) -> Vec<(String, Vec<(String, String, String)>)> {
    let mut out = Vec::new();
    let mut cur: Option<(String, Vec<(String, String, String)>)> = None;
    let mut rename: Option<String> = None;
    for l in src.lines() {
        let t = l.trim();
        if let Some(rest) = t.strip_prefix("pub struct ") {
            let name = rest.trim_end_matches('{').trim().to_string();
            cur = Some((name, Vec::new()));
            rename = None;
        } else if t == "}" {
            if let Some(c) = cur.take() {
                out.push(c);
            }
        } else if let Some(rest) = t.strip_prefix("#[serde(rename = \"") {
            rename = rest.strip_suffix("\")]").map(|x| x.to_string());
        } else if let Some(rest) = t.strip_prefix("pub ") {
            if let Some((id, ty)) = rest.split_once(':') {
                if let Some(c) = cur.as_mut() {
                    let id = id.trim().to_string();
                    let serde = rename.take().unwrap_or_else(|| id.clone());
                    c.1.push((id, ty.trim().trim_end_matches(',').to_string(), serde));
                }
            }
        }
    }
    out
}


// ------------------------------------------------------------------------------------------------ rendered schema vs oracle
fn local(n: &str) -> String {
    if n.starts_with("xmlns:") { return n.to_string(); }
    match n.find(':') { Some(i) => n[i + 1..].to_string(), None => n.to_string() }
}

/// Compare the RENDERED structs with the oracle schema: for every position the attribute fields (Option iff not on every
/// occurrence), the text field, the child fields (Option iff not in every occurrence, Vec iff somewhere more than once),
/// String-typing of text-only children, one struct per other position.  `exact` = C03 (iff), otherwise C01 (soundness:
/// nothing required that is missing somewhere, nothing single that repeats, every name has a field).
/// Only for plain names (no prefix, no renaming): otherwise no verdict.
thread_local! {
    /// (attribute prefix, text identifier) of the options the rendering under comparison was made with
    static RENDER_NAMES: std::cell::Cell<(&'static str, &'static str)> = std::cell::Cell::new(("@", "$text"));
}
/// the same comparison for a rendering made with other serde names for attributes and text
fn cmp_rendered_custom(root: &Element<String>, s: &oracle::S, exact: bool) -> Option<String> {
    let mut o = Options::quick_xml_de();
    o.attribute_prefix = "at.".into();
    o.text_identifier = "#txt".into();
    RENDER_NAMES.with(|c| c.set(("at.", "#txt")));
    let r = cmp_rendered(&root.to_serde_struct(&o), s, exact);
    RENDER_NAMES.with(|c| c.set(("@", "$text")));
    r.map(|e| format!("with attribute prefix \"at.\" and text identifier \"#txt\": {e}"))
}
fn cmp_rendered(out: &str, s: &oracle::S, exact: bool) -> Option<String> {
    let structs = parse_rendered_full(out);
    if structs.is_empty() {
        return None;
    }
    fn plain(n: &str) -> bool {
        !n.is_empty() && n.chars().all(|c| c.is_ascii_lowercase() || c.is_ascii_digit()) && n.chars().next().unwrap().is_ascii_lowercase()
            && !["type", "self", "crate", "loop", "text", "as", "in", "fn", "if", "mod", "use", "pub", "ref", "box", "do", "dyn", "try", "for", "let", "mut", "impl", "move", "else", "enum", "true", "false", "match", "super", "trait", "where", "while", "async", "await", "break", "const", "macro", "yield", "static", "struct", "unsafe", "extern", "return", "typeof", "unsized", "virtual", "abstract", "continue", "override", "priv", "final", "become"].contains(&n)
    }
    fn ok_name(n: &str) -> bool {
        if let Some(rest) = n.strip_prefix("xmlns:") { return plain(rest); }
        match n.find(':') { Some(i) => plain(&n[..i]) && plain(&n[i + 1..]), None => plain(n) }
    }
    fn all_plain(s: &oracle::S) -> bool {
        let a: Vec<String> = s.attrs.iter().map(|(_, a)| local(a)).collect();
        let k: Vec<String> = s.kids.iter().map(|(_, _, k)| local(&k.name)).collect();
        let distinct = |v: &Vec<String>| { let mut d = v.clone(); d.sort(); let n = d.len(); d.dedup(); d.len() == n };
        distinct(&a) && distinct(&k) && !a.iter().any(|x| k.contains(x))
            && s.attrs.iter().all(|(_, n)| ok_name(n)) && s.kids.iter().all(|(_, _, c)| ok_name(&c.name)) && s.kids.iter().all(|(_, _, k)| all_plain(k))
    }
    if !all_plain(s) {
        return None;
    }
    fn strip<'a>(t: &'a str, w: &str) -> Option<&'a str> {
        t.strip_prefix(w).and_then(|r| r.strip_prefix('<')).and_then(|r| r.strip_suffix('>'))
    }
    fn walk(structs: &Vec<(String, Vec<(String, String, String)>)>, sname: &str, s: &oracle::S, path: &str, exact: bool, seen: &mut Vec<String>) -> Option<String> {
        let p = format!("{}/{}", path, s.name);
        let defs: Vec<&(String, Vec<(String, String, String)>)> = structs.iter().filter(|x| x.0 == sname).collect();
        if defs.len() != 1 {
            return Some(format!("{p}: {} definitions of struct {sname} in the rendering", defs.len()));
        }
        seen.push(sname.to_string());
        let fields = &defs[0].1;
        let mut used = vec![false; fields.len()];
        for (m, a) in &s.attrs {
            let key = format!("{}{}", RENDER_NAMES.with(|c| c.get()).0, local(a));
            let hits: Vec<usize> = fields.iter().enumerate().filter(|(_, f)| f.2 == key).map(|(i, _)| i).collect();
            if hits.len() != 1 {
                return Some(format!("{p}: {} fields bound to the XML name of attribute {a:?} (expected serde name {key:?}) in struct {sname}", hits.len()));
            }
            used[hits[0]] = true;
            let ty = &fields[hits[0]].1;
            let opt = strip(ty, "Option").is_some();
            if !opt && !*m {
                return Some(format!("{p}: attribute {a:?} is rendered as required ({ty}) but some occurrence lacks it"));
            }
            if exact && opt && *m {
                return Some(format!("{p}: attribute {a:?} is rendered as {ty} although every occurrence has it"));
            }
        }
        let text_id = RENDER_NAMES.with(|c| c.get()).1;
        let text_hits: Vec<usize> = fields.iter().enumerate().filter(|(_, f)| f.2 == text_id).map(|(i, _)| i).collect();
        if s.text && text_hits.is_empty() {
            return Some(format!("{p}: occurrences have character data but struct {sname} has no text field"));
        }
        if exact && !s.text && !text_hits.is_empty() {
            return Some(format!("{p}: struct {sname} has a text field although no occurrence has character data"));
        }
        for i in text_hits {
            used[i] = true;
        }
        for (m, st, k) in &s.kids {
            let kl = local(&k.name);
            let hits: Vec<usize> = fields.iter().enumerate().filter(|(_, f)| f.2 == kl).map(|(i, _)| i).collect();
            if hits.len() != 1 {
                return Some(format!("{p}: {} fields bound to the XML name of child {:?} in struct {sname}", hits.len(), k.name));
            }
            used[hits[0]] = true;
            let ty = fields[hits[0]].1.as_str();
            let (opt, t1) = match strip(ty, "Option") { Some(r) => (true, r), None => (false, ty) };
            let (vec, inner) = match strip(t1, "Vec") { Some(r) => (true, r), None => (false, t1) };
            if !opt && !*m {
                return Some(format!("{p}: child {:?} is rendered as required ({ty}) but some occurrence of its parent lacks it", k.name));
            }
            if !vec && !*st {
                return Some(format!("{p}: child {:?} is rendered as single ({ty}) but some occurrence of its parent has it more than once", k.name));
            }
            if exact && opt && *m {
                return Some(format!("{p}: child {:?} is rendered as {ty} although every occurrence of its parent has it", k.name));
            }
            if exact && vec && *st {
                return Some(format!("{p}: child {:?} is rendered as {ty} although no occurrence of its parent has it more than once", k.name));
            }
            let text_only = k.text && k.attrs.is_empty() && k.kids.is_empty();
            if inner == "String" {
                if !text_only && (exact || !k.attrs.is_empty() || !k.kids.is_empty()) {
                    return Some(format!("{p}: child {:?} is typed String but it has attributes or children (or no character data)", k.name));
                }
            } else {
                if exact && text_only {
                    return Some(format!("{p}: text-only child {:?} is not typed String ({ty})", k.name));
                }
                if let Some(e) = walk(structs, inner, k, &p, exact, seen) {
                    return Some(e);
                }
            }
        }
        if exact {
            if let Some(i) = used.iter().position(|u| !*u) {
                return Some(format!("{p}: struct {sname} has a field {:?} that corresponds to nothing in the documents", fields[i].0));
            }
        }
        None
    }
    let mut seen = Vec::new();
    let first = structs[0].0.clone();
    if let Some(e) = walk(&structs, &first, s, "", exact, &mut seen) {
        return Some(e);
    }
    if exact && seen.len() != structs.len() {
        return Some(format!("the rendering defines {} structs, the documents determine {}", structs.len(), seen.len()));
    }
    None
}


/// the schema a tree stands for, read off the tree itself (for renderer-vs-tree conformance, C16)
fn s_from_v(v: &V) -> oracle::S {
    oracle::S {
        name: v.name.clone(),
        text: v.text,
        attrs: v.attrs.iter().map(|(m, a)| (*m, a.clone())).collect(),
        kids: v.kids_by_position().iter().map(|(m, c)| (*m, c.standalone, s_from_v(c))).collect(),
    }
}

// ------------------------------------------------------------------------------------------------ per-sequence checks
fn check_docs(prop: &str, docs: &[Vec<u8>]) -> Option<String> {
    let nodes: Vec<Node> = match docs.iter().map(|d| dom(d)).collect::<Option<Vec<_>>>() {
        Some(n) => n,
        None => return None, // not a well-formed element document: outside these properties' quantifier
    };
    let root = match parse_seq(docs) {
        Ok(r) => r,
        Err(e) => return Some(format!("well-formed input rejected: {e}")),
    };
    let v = match view(&root) {
        Ok(v) => v,
        Err(_) => return None,
    };
    let occ: Vec<&Node> = nodes.iter().collect();
    match prop {
        "C01" => {
            for n in &nodes {
                if let Some(e) = admits(&v, n, "") {
                    return Some(e);
                }
            }
            for o in [Options::quick_xml_de()] {
                if let Some(e) = cmp_rendered(&root.to_serde_struct(&o), &infer(&occ), false) {
                    return Some(format!("rendered structs: {e}"));
                }
            }
            if let Some(e) = cmp_rendered_custom(&root, &infer(&occ), false) {
                return Some(format!("rendered structs: {e}"));
            }
            None
        }
        "C03" => {
            if let Some(e) = cmp_exact(&v, &infer(&occ), "") {
                return Some(e);
            }
            for o in [Options::quick_xml_de()] {
                if let Some(e) = cmp_rendered(&root.to_serde_struct(&o), &infer(&occ), true) {
                    return Some(format!("rendered structs: {e}"));
                }
            }
            if let Some(e) = cmp_rendered_custom(&root, &infer(&occ), true) {
                return Some(format!("rendered structs: {e}"));
            }
            None
        }
        "C09" => {
            if let Some(e) = cmp_order(&v, &infer(&occ), "") {
                return Some(e);
            }
            if let Some(e) = switch_changes_only_order(&root) {
                return Some(e);
            }
            if let Some(e) = render_order(&root, &infer(&occ)) {
                return Some(e);
            }
            let sch = infer(&occ);
            fn names_ok(s: &oracle::S) -> bool {
                let a: Vec<String> = s.attrs.iter().map(|(_, a)| local(a)).collect();
                let k: Vec<String> = s.kids.iter().map(|(_, _, k)| local(&k.name)).collect();
                let distinct = |v: &Vec<String>| { let mut d = v.clone(); d.sort(); let n = d.len(); d.dedup(); d.len() == n };
                distinct(&a) && distinct(&k) && !a.iter().any(|x| x.starts_with("xmlns")) && s.kids.iter().all(|(_, _, c)| names_ok(c))
            }
            if names_ok(&sch) {
                return render_preorder(&root.to_serde_struct(&Options::quick_xml_de()), &sch);
            }
            None
        }
        "C16" => {
            if let Some(e) = uniq_deep(&v, "") {
                return Some(e);
            }
            // renderer-vs-tree conformance on a tree of any shape and depth (here: built by the parser through the same operations)
            cmp_rendered(&root.to_serde_struct(&Options::quick_xml_de()), &s_from_v(&v), true).map(|e| format!("the rendering does not reflect the tree: {e}"))
        }
        _ => None,
    }
}

fn uniq_deep(v: &V, path: &str) -> Option<String> {
    let p = format!("{}/{}", path, v.name);
    let mut seen = HashSet::new();
    for (_, c) in &v.kids {
        if !seen.insert(&c.name) {
            return Some(format!("{p}: two children named {:?}", c.name));
        }
    }
    for (_, c) in &v.kids {
        if let Some(e) = uniq_deep(c, &p) {
            return Some(e);
        }
    }
    None
}

/// C09, third sentence: switching the sort option changes nothing but the orders - the same structs with the same fields
/// (identifier, type, serde name), whatever the names are (colliding identifiers included).
fn switch_changes_only_order(root: &Element<String>) -> Option<String> {
    let mut o = Options::quick_xml_de();
    o.sort = SortBy::XmlName;
    let norm = |out: &str| -> Vec<(String, Vec<(String, String, String)>)> {
        let mut st = parse_rendered_full(out);
        for x in st.iter_mut() { x.1.sort(); }
        st.sort();
        st
    };
    let a = norm(&root.to_serde_struct(&Options::quick_xml_de()));
    let b = norm(&root.to_serde_struct(&o));
    if a != b {
        let d: Vec<_> = a.iter().filter(|x| !b.contains(x)).take(2).collect();
        let e: Vec<_> = b.iter().filter(|x| !a.contains(x)).take(2).collect();
        return Some(format!("switching the sort option changes more than the orders: unsorted has {:?}, sort-by-name has {:?}", d, e));
    }
    None
}

/// C09 rendering half: the first struct's fields are attributes, text, children - each group in first-appearance order,
/// or ordered by XML name when sorting is requested.  Fields are identified by their serde names ("@local" for
/// attributes, "$text", "local" for children), so this needs distinct local names within each group.
fn render_order(root: &Element<String>, s: &oracle::S) -> Option<String> {
    let local = |n: &str| -> String { match n.find(':') { Some(i) if !n.starts_with("xmlns:") => n[i + 1..].to_string(), _ => n.to_string() } };
    let attrs: Vec<String> = s.attrs.iter().map(|(_, a)| a.clone()).collect();
    let kids: Vec<String> = s.kids.iter().map(|(_, _, k)| k.name.clone()).collect();
    let distinct = |v: &Vec<String>| { let mut d: Vec<String> = v.iter().map(|x| local(x)).collect(); d.sort(); let n = d.len(); d.dedup(); d.len() == n };
    if !distinct(&attrs) || !distinct(&kids) || attrs.iter().any(|a| a.starts_with("xmlns")) {
        return None;
    }
    let expect = |attrs: &Vec<String>, kids: &Vec<String>| -> Vec<String> {
        let mut w: Vec<String> = attrs.iter().map(|a| format!("@{}", local(a))).collect();
        if s.text {
            w.push("$text".into());
        }
        w.extend(kids.iter().map(|k| local(k)));
        w
    };
    let same_set = |a: &Vec<String>, b: &Vec<String>| { let (mut x, mut y) = (a.clone(), b.clone()); x.sort(); y.sort(); x == y };
    let out = root.to_serde_struct(&Options::quick_xml_de());
    let structs = parse_rendered_full(&out);
    let first = structs.first()?;
    let got: Vec<String> = first.1.iter().map(|(_, _, sn)| sn.clone()).collect();
    let want = expect(&attrs, &kids);
    if !same_set(&got, &want) {
        return None; // the rendering cannot be read back field by field (another layout): no verdict
    }
    if got != want {
        return Some(format!("rendered field order (serde names) of the first struct is {:?}, expected attributes, text, children in first-appearance order {:?}", got, want));
    }
    // sort-by-name option: attributes and children each ordered by their XML name
    let mut o = Options::quick_xml_de();
    o.sort = SortBy::XmlName;
    let out2 = root.to_serde_struct(&o);
    let st2 = parse_rendered_full(&out2);
    let got2: Vec<String> = st2.first()?.1.iter().map(|(_, _, sn)| sn.clone()).collect();
    let mut a2 = attrs.clone();
    a2.sort();
    let mut k2 = kids.clone();
    k2.sort();
    let want2 = expect(&a2, &k2);
    if !same_set(&got2, &want2) {
        return None;
    }
    if got2 != want2 {
        return Some(format!("with sort-by-name the first struct's fields (serde names) are {:?}, expected each group ordered by XML name {:?}", got2, want2));
    }
    // switching the option changes nothing but these orders: same set of struct names
    let mut n1: Vec<String> = structs.iter().map(|x| x.0.clone()).collect();
    let mut n2: Vec<String> = st2.iter().map(|x| x.0.clone()).collect();
    n1.sort();
    n2.sort();
    if n1 != n2 {
        return Some(format!("switching the sort option changes the set of structs: {:?} vs {:?}", n1, n2));
    }
    None
}


/// C09: struct definitions follow a pre-order walk, children in first-appearance order (unsorted option), and inside
/// every struct the fields are attributes, text, children - each group in first-appearance order.  Plain names only.
fn render_preorder(out: &str, s: &oracle::S) -> Option<String> {
    let structs = parse_rendered_full(out);
    if structs.is_empty() {
        return None;
    }
    {
        // two structs of one name (element names that collide as Rust identifiers: C04's business): a field type no longer identifies a position, no verdict
        let mut names: Vec<&String> = structs.iter().map(|x| &x.0).collect();
        names.sort();
        let n = names.len();
        names.dedup();
        if names.len() != n {
            return None;
        }
    }
    fn strip<'a>(t: &'a str, w: &str) -> Option<&'a str> {
        t.strip_prefix(w).and_then(|r| r.strip_prefix('<')).and_then(|r| r.strip_suffix('>'))
    }
    fn walk(structs: &Vec<(String, Vec<(String, String, String)>)>, sname: &str, s: &oracle::S, path: &str, order: &mut Vec<String>) -> Result<(), Option<String>> {
        let p = format!("{}/{}", path, s.name);
        let def = structs.iter().find(|x| x.0 == sname).ok_or(None)?;
        order.push(sname.to_string());
        let got: Vec<String> = def.1.iter().map(|f| f.2.clone()).collect();
        let mut want: Vec<String> = s.attrs.iter().map(|(_, a)| format!("@{}", local(a))).collect();
        if s.text {
            want.push("$text".into());
        }
        want.extend(s.kids.iter().map(|(_, _, k)| local(&k.name)));
        let (mut a, mut b) = (got.clone(), want.clone());
        a.sort();
        b.sort();
        if a != b {
            return Err(None); // cannot be read back field by field: no verdict
        }
        if got != want {
            return Err(Some(format!("{p}: fields of struct {sname} are {:?}, expected attributes, text, children in first-appearance order {:?}", got, want)));
        }
        for (_, _, k) in &s.kids {
            let f = def.1.iter().find(|f| f.2 == local(&k.name)).ok_or(None)?;
            let ty = f.1.as_str();
            let t1 = strip(ty, "Option").unwrap_or(ty);
            let inner = strip(t1, "Vec").unwrap_or(t1);
            if inner != "String" {
                walk(structs, inner, k, &p, order)?;
            }
        }
        Ok(())
    }
    let mut order = Vec::new();
    let first = structs[0].0.clone();
    match walk(&structs, &first, s, "", &mut order) {
        Err(Some(e)) => return Some(e),
        Err(None) => return None,
        Ok(()) => {}
    }
    let actual: Vec<String> = structs.iter().map(|x| x.0.clone()).collect();
    if actual.len() == order.len() && actual != order {
        return Some(format!("struct definitions appear in the order {:?}, a pre-order walk in first-appearance order gives {:?}", actual, order));
    }
    None
}

fn witness_docs(prop: &str, docs: &[Vec<u8>], what: &str) {
    let ds: Vec<String> = docs.iter().map(|d| format!("\"{}\"", esc(&String::from_utf8_lossy(d)))).collect();
    let hx: Vec<String> = docs.iter().map(|d| format!("\"{}\"", hex(d))).collect();
    println!("{{\"witness\":{{\"kind\":\"docs\",\"property\":\"{}\",\"docs\":[{}],\"docs_hex\":[{}],\"violation\":\"{}\"}}}}", prop, ds.join(","), hx.join(","), esc(what));
}

fn lab_rich() -> Labels {
    Labels { names: vec!["a", "b"], attr_opts: vec![vec![], vec!["x"], vec!["x", "y"]], text_opts: vec![0, 1] }
}
fn lab_names() -> Labels {
    Labels { names: vec!["a", "b"], attr_opts: vec![vec![]], text_opts: vec![0] }
}
fn lab_attrs() -> Labels {
    Labels { names: vec!["a"], attr_opts: vec![vec![], vec!["x"], vec!["y"], vec!["x", "y"], vec!["y", "x"], vec!["y", "z", "x"]], text_opts: vec![0, 2] }
}


/// documents built to cross small numeric thresholds: k same-named children (k = 1..9) in one parent followed by an
/// empty / child-less occurrence of the parent, and j occurrences of the parent (j = 2..7) with the child absent in one
fn threshold_family() -> Vec<Vec<Node>> {
    let leaf = |n: &str| Node { name: n.to_string(), attrs: vec![], text: 0, kids: vec![] };
    let mut out: Vec<Vec<Node>> = Vec::new();
    for k in 1..10usize {
        for second in 0..3 {
            let mut x1 = leaf("x");
            for _ in 0..k {
                x1.kids.push(leaf("c"));
            }
            if second == 2 {
                x1.kids.push(leaf("d"));
            }
            let mut x2 = leaf("x");
            if second == 1 {
                x2.kids.push(leaf("d"));
            }
            let r = Node { name: "r".into(), attrs: vec![], text: 0, kids: vec![x1.clone(), x2.clone()] };
            out.push(vec![r]);
            // the same across two documents
            out.push(vec![Node { name: "r".into(), attrs: vec![], text: 0, kids: vec![x1] }, Node { name: "r".into(), attrs: vec![], text: 0, kids: vec![x2] }]);
        }
    }
    for j in 2..8usize {
        for absent in 0..j {
            let mut kids = Vec::new();
            for i in 0..j {
                let mut p = leaf("p");
                if i != absent {
                    p.kids.push(leaf("c"));
                }
                if i == j - 1 {
                    p.kids.push(leaf("e"));
                }
                kids.push(p);
            }
            out.push(vec![Node { name: "r".into(), attrs: vec![], text: 0, kids: kids.clone() }]);
            out.push(kids.into_iter().map(|p| Node { name: "r".into(), attrs: vec![], text: 0, kids: vec![p] }).collect());
        }
    }
    out
}

/// the document sequences every tree-level property is searched over
fn sequences(tier: &str, seed: u64, mut f: impl FnMut(&[Vec<u8>]) -> bool) {
    let st = Style::default();
    let st_long = Style { short_empty: false, text_last: true, ..Style::default() };
    // the same documents with comments (also as the only content of an element) and with a prolog: the schema must not notice
    let st_comm = Style { short_empty: false, comments: true, ..Style::default() };
    let st_prolog = Style { decl: true, doctype: true, pi: true, ..Style::default() };
    let styles = [&st, &st_long, &st_comm, &st_prolog];
    let thorough = tier == "thorough";
    // singles
    let mut singles: Vec<Node> = Vec::new();
    singles.extend(docs(if thorough { 4 } else { 3 }, &lab_rich(), false));
    singles.extend(docs(if thorough { 7 } else { 6 }, &lab_names(), false));
    singles.extend(docs(if thorough { 4 } else { 3 }, &lab_attrs(), true));
    for (i, d) in singles.iter().enumerate() {
        let x = write_doc(d, styles[i % 4]).into_bytes();
        if f(&[x]) {
            return;
        }
    }
    // pairs and triples of small documents (extend)
    let small: Vec<Node> = if thorough {
        docs(2, &lab_rich(), true).into_iter().chain(docs(4, &lab_names(), false)).collect()
    } else {
        docs(1, &lab_rich(), true).into_iter().chain(docs(3, &lab_names(), false)).collect()
    };
    let step = if thorough { 2 } else { 1 };
    let mut k = 0usize;
    for (i, a) in small.iter().enumerate() {
        for (j, b) in small.iter().enumerate() {
            k += 1;
            if (k + seed as usize) % step != 0 && i != j {
                continue;
            }
            let xa = write_doc(a, &st).into_bytes();
            let xb = write_doc(b, styles[(i + 3 * j) % 4]).into_bytes();
            if f(&[xa, xb]) {
                return;
            }
        }
    }
    let tiny: Vec<Node> = if thorough {
        docs(1, &lab_rich(), true).into_iter().chain(docs(2, &lab_names(), false)).collect()
    } else {
        docs(1, &lab_rich(), false).into_iter().chain(docs(2, &lab_names(), false)).collect()
    };
    for a in &tiny {
        for b in &tiny {
            for c in &tiny {
                let xs = [write_doc(a, &st).into_bytes(), write_doc(b, &st_long).into_bytes(), write_doc(c, &st_comm).into_bytes()];
                if f(&xs) {
                    return;
                }
            }
        }
    }
    for seq in threshold_family() {
        for stl in [&st, &st_long, &st_comm, &st_prolog] {
            let xs: Vec<Vec<u8>> = seq.iter().map(|d| write_doc(d, stl).into_bytes()).collect();
            if f(&xs) {
                return;
            }
        }
    }
    // a few BIG documents: 300 distinct sibling names, 300 attributes, 300 repetitions, nesting depth 40
    {
        let mut wide = String::from("<r>");
        for i in 0..300 {
            wide.push_str(&format!("<n{i}/>"));
        }
        wide.push_str("</r>");
        let mut wide2 = String::from("<r>");
        for i in (250..320).rev() {
            wide2.push_str(&format!("<n{i}>t</n{i}>"));
        }
        wide2.push_str("</r>");
        let mut attrs = String::from("<r><e");
        for i in 0..300 {
            attrs.push_str(&format!(" a{i}=\"v\""));
        }
        attrs.push_str("/><e a5=\"v\" b1=\"v\" b0=\"v\"/></r>");
        let mut rep = String::from("<r>");
        for i in 0..300 {
            rep.push_str(if i % 50 == 49 { "<p><c/><c/><d/></p>" } else { "<p><c/></p>" });
        }
        rep.push_str("</r>");
        let mut deep = String::new();
        for i in 0..40 {
            deep.push_str(&format!("<d{}>", i % 3));
        }
        deep.push_str("t");
        for i in (0..40).rev() {
            deep.push_str(&format!("</d{}>", i % 3));
        }
        let deep = format!("<r>{deep}{deep}</r>");
        for xs in [vec![wide.clone()], vec![wide.clone(), wide2.clone()], vec![wide2, wide], vec![attrs], vec![rep.clone()], vec![rep, "<r><p/></r>".to_string()], vec![deep]] {
            let b: Vec<Vec<u8>> = xs.into_iter().map(|x| x.into_bytes()).collect();
            if f(&b) {
                return;
            }
        }
    }
    // seeded random WIDE sequences: up to 4 documents, 6 names, 6 attribute names, up to 16 nodes, depth 4
    let mut rngw = Rng(seed ^ 0x41de);
    let nw = if thorough { 20000 } else { 2500 };
    for _ in 0..nw {
        let k = 1 + rngw.below(4);
        let mut xs = Vec::new();
        for _ in 0..k {
            let d = random_doc(&mut rngw, &["a", "b", "c", "d", "e", "f"], &["u", "v", "w", "x", "y", "z"], 4, 16);
            let s = Style { short_empty: rngw.chance(1, 2), text_last: rngw.chance(1, 2), comments: rngw.chance(1, 4), doctype: rngw.chance(1, 5), decl: rngw.chance(1, 5), pi: rngw.chance(1, 6), ..Style::default() };
            xs.push(write_doc(&d, &s).into_bytes());
        }
        if f(&xs) {
            return;
        }
    }
    // seeded random sequences over names that collide once they are turned into Rust identifiers (item / Item, unit_price / UnitPrice)
    let mut rngc = Rng(seed ^ 0xc011);
    let nc = if thorough { 12000 } else { 1500 };
    for _ in 0..nc {
        let k = 1 + rngc.below(3);
        let mut xs = Vec::new();
        for _ in 0..k {
            let d = random_doc(&mut rngc, &["item", "Item", "unit_price", "UnitPrice", "b"], &["id", "Id", "x"], 3, 10);
            xs.push(write_doc(&d, &st).into_bytes());
        }
        if f(&xs) {
            return;
        }
    }
    // seeded random sequences of larger documents
    let mut rng = Rng(seed ^ 0x5eed);
    let n = if thorough { 60000 } else { 3000 };
    for _ in 0..n {
        let k = 1 + rng.below(3);
        let mut xs = Vec::new();
        for _ in 0..k {
            let d = random_doc(&mut rng, &["a", "b", "c"], &["x", "y", "z"], 3, 9);
            let s = Style { short_empty: rng.chance(1, 2), text_last: rng.chance(1, 2), comments: rng.chance(1, 4), doctype: rng.chance(1, 5), decl: rng.chance(1, 5), pi: rng.chance(1, 6), ..Style::default() };
            xs.push(write_doc(&d, &s).into_bytes());
        }
        if f(&xs) {
            return;
        }
    }
}

fn prefixed_docs(seed: u64, n: usize) -> Vec<Vec<Vec<u8>>> {
    // children and attributes whose qualified-name order differs from their local-name order
    let mut rng = Rng(seed ^ 0xc09);
    let names = ["z:alpha", "b:zeta", "m", "k:beta", "plain", "a:omega", "Beta", "apple", "Zed"];
    let attrs = ["z:p", "a:q", "n", "y:a", "ns:id", "s:must", "lns:w", "mlns:v", "xmlns:ns"];
    let mut out = Vec::new();
    for _ in 0..n {
        let k = 1 + rng.below(2);
        let mut seq = Vec::new();
        for _ in 0..k {
            let mut root = Node { name: "r".into(), attrs: vec![], text: rng.below(2) as u8, kids: vec![] };
            for a in attrs.iter() {
                if rng.chance(1, 2) {
                    root.attrs.push(a.to_string());
                }
            }
            if rng.chance(1, 2) {
                root.attrs.reverse();
            }
            let mut order: Vec<&str> = names.to_vec();
            for i in (1..order.len()).rev() {
                order.swap(i, rng.below(i + 1));
            }
            for nm in order.iter().take(1 + rng.below(names.len())) {
                root.kids.push(Node { name: nm.to_string(), attrs: vec![], text: rng.below(2) as u8, kids: vec![] });
            }
            seq.push(write_doc(&root, &Style::default()).into_bytes());
        }
        out.push(seq);
    }
    out
}

fn search_tree_prop(prop: &str, tier: &str, seed: u64) {
    let mut stats = Stats::new();
    let mut sample = String::new();
    let mut found = false;
    if prop == "C09" || prop == "C01" || prop == "C03" {
        for xs in prefixed_docs(seed, if tier == "thorough" { 5000 } else { 600 }) {
            let key = xs.iter().map(|x| String::from_utf8_lossy(x).into_owned()).collect::<Vec<_>>().join("\u{1}");
            stats.note(&key);
            if let Ok(Some(e)) = std::panic::catch_unwind(|| check_docs(prop, &xs)) {
                witness_docs(prop, &xs, &e);
                found = true;
                break;
            }
        }
    }
    if found {
        stats.print("documents with namespace-prefixed child and attribute names (qualified-name order differs from local-name order)", "");
        return;
    }
    sequences(tier, seed, |xs| {
        let key = xs.iter().map(|x| String::from_utf8_lossy(x).into_owned()).collect::<Vec<_>>().join("\u{1}");
        if stats.evals == 7 {
            sample = key.replace('\u{1}', " ; ");
        }
        stats.note(&key);
        let r = std::panic::catch_unwind(|| check_docs(prop, xs));
        match r {
            Ok(None) => false,
            Ok(Some(e)) => {
                witness_docs(prop, xs, &e);
                found = true;
                true
            }
            Err(_) => {
                witness_docs(prop, xs, "the library panicked");
                found = true;
                true
            }
        }
    });
    let _ = found;
    stats.print("document sequences parse(D1), extend(D2..), written in four spellings (plain; <x></x> with trailing text; with comments, also as the only content of an element; with declaration + DOCTYPE + PIs) and rendered with the default and with custom serde names (attribute prefix, text identifier): exhaustive small forests under a root (names a,b; attribute lists over x,y,z; text/CDATA; both empty-element spellings) as singles, pairs, triples, a threshold family (1-9 same-named children then an empty occurrence, 2-7 parent occurrences with the child absent in one, in one document and across documents), seven big documents (300 distinct siblings / attributes / repetitions, depth 40), seeded random wide sequences (up to 4 documents, 16 nodes, depth 4) and seeded random sequences of 1-3 documents with up to 9 nodes and depth 3; distinct = distinct input texts", &sample);
}

// ------------------------------------------------------------------------------------------------ C05
fn render_all(docs: &[Vec<u8>]) -> Option<String> {
    let r = parse_seq(docs).ok()?;
    let mut o = Options::quick_xml_de();
    let a = r.to_serde_struct(&o);
    o.sort = SortBy::XmlName;
    let b = r.to_serde_struct(&Options::serde_xml_rs());
    let c = r.to_serde_struct(&o);
    Some(format!("{a}\n----\n{b}\n----\n{c}\n----\n{:?}", r))
}

/// self-contained: the same sequence is parsed and rendered (a) in a fresh thread, (b) in a thread that has first
/// rendered other trees with the same root name and every prefix of the sequence, (c) repeatedly in this thread
fn check_c05(docs: &[Vec<u8>], reps: usize) -> Option<String> {
    let d1: Vec<Vec<u8>> = docs.to_vec();
    let fresh = std::thread::spawn(move || render_all(&d1)).join().ok()??;
    let root = dom(&docs[0]).map(|n| n.name).unwrap_or_else(|| "r".to_string());
    let d2: Vec<Vec<u8>> = docs.to_vec();
    let used = std::thread::spawn(move || {
        for decoy in [format!("<{0}><zz><q/></zz><q/></{0}>", root), format!("<{0}><p><Foo/><q><Foo/></q></p><Foo/></{0}>", root), format!("<{0}/>", root)] {
            let _ = render_all(&[decoy.into_bytes()]);
        }
        for k in 1..d2.len() {
            let _ = render_all(&d2[..k]);
        }
        render_all(&d2)
    })
    .join()
    .ok()??;
    if used != fresh {
        let (la, lb) = fresh.lines().zip(used.lines()).find(|(x, y)| x != y).unwrap_or(("", ""));
        return Some(format!("the rendering depends on what the thread rendered before: fresh thread {:?} vs thread that rendered other trees with the same root first {:?}", la, lb));
    }
    for i in 0..reps {
        let again = render_all(docs)?;
        if again != fresh {
            let (la, lb) = fresh.lines().zip(again.lines()).find(|(x, y)| x != y).unwrap_or(("", ""));
            return Some(format!("repetition {} of the same parse+render differs: {:?} vs {:?}", i + 2, la, lb));
        }
    }
    None
}

fn search_c05(tier: &str, seed: u64) {
    let mut stats = Stats::new();
    let mut sample = String::new();
    let thorough = tier == "thorough";
    // names whose field identifiers collide make hash-order dependence visible in suffixes
    let pool: [&str; 8] = ["Foo", "foo", "FOO", "f_o_o", "bar", "Bar", "x", "foo-x"];
    // name-hint shapes: many distinct names, one name recurring below several parents, at several places and depths
    {
        let leaf = |n: &str| Node { name: n.to_string(), attrs: vec![], text: 1, kids: vec![] };
        let mut shapes: Vec<Node> = Vec::new();
        for places in 2..6usize {
            for depth in 1..7usize {
                let mut root = Node { name: "r".into(), attrs: vec![], text: 0, kids: vec![] };
                for p in 0..places {
                    // a chain of `depth` distinct names ending in the recurring name Entry
                    let mut cur = Node { name: "Entry".into(), attrs: vec![], text: 0, kids: vec![leaf("v")] };
                    for d in (0..depth).rev() {
                        cur = Node { name: format!("p{p}d{d}"), attrs: vec![], text: 0, kids: vec![cur] };
                    }
                    root.kids.push(cur);
                }
                for extra in 0..6 {
                    root.kids.push(leaf(&format!("x{extra}")));
                }
                shapes.push(root);
            }
        }
        for sh in &shapes {
            let xs = vec![write_doc(sh, &Style::default()).into_bytes()];
            let key = String::from_utf8_lossy(&xs[0]).into_owned();
            stats.note(&key);
            if let Some(e) = check_c05(&xs, if thorough { 60 } else { 30 }) {
                witness_docs("C05", &xs, &e);
                stats.print("name-hint shapes: one element name recurring at 2-5 places below chains of 1-6 distinct ancestors, next to 6 unique names; each rendered 31-61 times", "");
                return;
            }
        }
    }
    let mut rng = Rng(seed ^ 0xc05);
    let n = if thorough { 4000 } else { 500 };
    let st = Style::default();
    for it in 0..n {
        let k = 1 + rng.below(2);
        let mut xs = Vec::new();
        for _ in 0..k {
            // <r><p>subset</p><p>subset</p>...</r> : repeated parents with varying subsets of colliding children
            let mut root = Node { name: "r".into(), attrs: vec![], text: 0, kids: vec![] };
            let np = 1 + rng.below(3);
            for _ in 0..np {
                let mut p = Node { name: "p".into(), attrs: vec![], text: 0, kids: vec![] };
                for nm in pool.iter() {
                    if rng.chance(1, 2) {
                        let mut c = Node { name: nm.to_string(), attrs: vec![], text: rng.below(2) as u8, kids: vec![] };
                        if rng.chance(1, 4) {
                            c.attrs.push("Foo".into());
                            c.attrs.push("foo".into());
                        }
                        p.kids.push(c);
                    }
                }
                if rng.chance(1, 3) {
                    p.kids.reverse();
                }
                root.kids.push(p);
            }
            xs.push(write_doc(&root, &st).into_bytes());
        }
        let key = xs.iter().map(|x| String::from_utf8_lossy(x).into_owned()).collect::<Vec<_>>().join(" ; ");
        if it == 3 {
            sample = key.clone();
        }
        stats.note(&key);
        if let Some(e) = check_c05(&xs, if thorough { 24 } else { 12 }) {
            witness_docs("C05", &xs, &e);
            mark_witness();
            break;
        }
    }
    // random trees in which struct names recur at several positions and collide only after (repeated) PascalCase conversion
    if stats_no_witness() {
        let mut rng3 = Rng(seed ^ 0xc05c);
        let n3 = if thorough { 3000 } else { 400 };
        for _ in 0..n3 {
            let d = random_doc(&mut rng3, &["e_mail", "email", "EMail", "x-ray", "xray", "iPhone", "iphone", "b", "c"], &["id"], 3, 12);
            let xs = vec![write_doc(&d, &st).into_bytes()];
            stats.note(&String::from_utf8_lossy(&xs[0]));
            if let Some(e) = check_c05(&xs, if thorough { 24 } else { 12 }) {
                witness_docs("C05", &xs, &e);
                mark_witness();
                break;
            }
        }
    }
    stats.print("seeded random sequences of 1-2 documents with repeated parents holding varying subsets of children whose field identifiers collide (Foo/foo/FOO/f_o_o/..); each parsed and rendered 13-25 times in one process (every 4th repetition in a fresh thread; every HashMap instance gets a fresh seed) with three option sets and compared byte for byte, including the Debug form of the tree; preceded by name-hint shapes (one name recurring at 2-5 places below chains of 1-6 distinct ancestors, next to 6 unique names), each rendered 31 times; followed by seeded random trees (12 elements, depth 3) over names that collide only after PascalCase conversion (e_mail / email / EMail, x-ray / xray, iPhone / iphone) and recur at several positions", &sample);
}

// ------------------------------------------------------------------------------------------------ C06
fn check_c06(docs: &[Vec<u8>]) -> Option<String> {
    if docs.iter().any(|d| dom(d).is_none()) {
        return None;
    }
    let base = parse_seq(docs).ok()?;
    let vb = view(&base).ok()?;
    // permutations (rotations and the reversal) give the same schema
    let mut rev: Vec<Vec<u8>> = docs.to_vec();
    rev.reverse();
    let mut rot: Vec<Vec<u8>> = docs.to_vec();
    rot.rotate_left(1);
    for (nm, p) in [("reversed", rev), ("rotated", rot)] {
        let r = match parse_seq(&p) {
            Ok(r) => r,
            Err(e) => return Some(format!("{nm} order fails: {e}")),
        };
        let v = view(&r).ok()?;
        if schema_view(&v) != schema_view(&vb) {
            return Some(format!("schema depends on document order ({nm}): {} vs {}", schema_view(&vb), schema_view(&v)));
        }
    }
    // supplying a document a second time changes nothing
    for d in docs {
        let r = match extend_struct(&mut Reader::from_reader(d.as_slice()), base.clone()) {
            Ok(r) => r,
            Err(e) => return Some(format!("re-supplying a document fails: {e}")),
        };
        let v = view(&r).ok()?;
        if schema_view(&v) != schema_view(&vb) {
            return Some(format!("supplying a document a second time changes the schema: {} vs {}", schema_view(&vb), schema_view(&v)));
        }
    }
    // empty / element-less input changes nothing
    for e in ["", "<!-- nothing -->", "<?xml version=\"1.0\"?>"] {
        let r = match extend_struct(&mut Reader::from_reader(e.as_bytes()), base.clone()) {
            Ok(r) => r,
            Err(err) => return Some(format!("extending with the element-less input {e:?} fails: {err}")),
        };
        let v = view(&r).ok()?;
        if schema_view(&v) != schema_view(&vb) {
            return Some(format!("extending with the element-less input {e:?} changes the schema: {} vs {}", schema_view(&vb), schema_view(&v)));
        }
    }
    // monotone along the sequence, and equal to the union semantics
    let mut cur = into_struct(&mut Reader::from_reader(docs[0].as_slice())).ok()?;
    for d in &docs[1..] {
        let before = view(&cur).ok()?;
        cur = extend_struct(&mut Reader::from_reader(d.as_slice()), cur).ok()?;
        let after = view(&cur).ok()?;
        if let Some(e) = monotone(&before, &after, "") {
            return Some(format!("extension is not monotone: {e}"));
        }
    }
    let nodes: Vec<Node> = docs.iter().map(|d| dom(d)).collect::<Option<Vec<_>>>()?;
    let occ: Vec<&Node> = nodes.iter().collect();
    if let Some(e) = cmp_exact(&vb, &infer(&occ), "") {
        return Some(format!("not the schema of the union of all occurrences: {e}"));
    }
    if let Some(e) = cmp_rendered(&base.to_serde_struct(&Options::quick_xml_de()), &infer(&occ), true) {
        return Some(format!("the rendering is not the schema of the union of all occurrences: {e}"));
    }
    // a failed extension reports an error (the caller keeps nothing partial): by type, Err carries no tree
    if let Ok(_) = extend_struct(&mut Reader::from_reader(&b"<r><unclosed></r>"[..]), base.clone()) {
        return Some("a malformed extension document was accepted".into());
    }
    // the supplied documents themselves, damaged: a duplicated attribute on the root and on every other start tag
    for d in docs {
        let text = String::from_utf8_lossy(d).into_owned();
        let mut variants: Vec<String> = Vec::new();
        let mut from = 0;
        while let Some(i) = text[from..].find('<') {
            let at = from + i;
            let next = text[at + 1..].chars().next().unwrap_or(' ');
            if next.is_alphabetic() {
                // end of the tag name
                let name_end = text[at + 1..].find(|c: char| c == ' ' || c == '>' || c == '/').map(|k| at + 1 + k).unwrap_or(text.len());
                let mut v = text.clone();
                v.insert_str(name_end, " dup=\"1\" dup=\"2\"");
                variants.push(v);
            }
            from = at + 1;
            if variants.len() >= 4 {
                break;
            }
        }
        for v in variants {
            if dom(v.as_bytes()).is_some() {
                continue; // the reader did not object: not a malformed document after all
            }
            if let Ok(r) = extend_struct(&mut Reader::from_reader(v.as_bytes()), base.clone()) {
                let _ = r;
                return Some(format!("a failed extension must report an error, but extending with the malformed document {:?} returned Ok (a partial result)", v));
            }
        }
    }
    None
}

fn search_c06(tier: &str, seed: u64) {
    let mut stats = Stats::new();
    let mut sample = String::new();
    sequences(tier, seed, |xs| {
        if xs.len() < 2 {
            return false;
        }
        let key = xs.iter().map(|x| String::from_utf8_lossy(x).into_owned()).collect::<Vec<_>>().join(" ; ");
        if stats.evals == 5 {
            sample = key.clone();
        }
        stats.note(&key);
        match std::panic::catch_unwind(|| check_c06(xs)) {
            Ok(None) => false,
            Ok(Some(e)) => {
                witness_docs("C06", xs, &e);
                true
            }
            Err(_) => {
                witness_docs("C06", xs, "the library panicked");
                true
            }
        }
    });
    stats.print("document sequences of length 2-3 (exhaustive small forests, seeded random larger ones): reversal and rotation, re-supplying each document, three element-less inputs, monotonicity along the sequence, comparison with the union oracle", &sample);
}

// ------------------------------------------------------------------------------------------------ C11
fn render_with(docs: &[Vec<u8>], expand: bool, cap: usize) -> Option<String> {
    let mk = |d: &Vec<u8>| {
        let mut r = Reader::from_reader(BufReader::with_capacity(cap.max(1), std::io::Cursor::new(d.clone())));
        r.config_mut().expand_empty_elements = expand;
        r
    };
    let mut root = into_struct(&mut mk(&docs[0])).ok()?;
    for d in &docs[1..] {
        root = extend_struct(&mut mk(d), root).ok()?;
    }
    Some(root.to_serde_struct(&Options::quick_xml_de()))
}

fn check_c11(nodes: &[Node]) -> Option<(Vec<Vec<u8>>, String)> {
    let base_style = Style::default();
    let base: Vec<Vec<u8>> = nodes.iter().map(|n| write_doc(n, &base_style).into_bytes()).collect();
    let want = render_with(&base, false, 8192)?;
    let variants: Vec<(&str, Style)> = vec![
        ("<x></x> instead of <x/>", Style { short_empty: false, ..Style::default() }),
        ("XML declaration and DOCTYPE added", Style { decl: true, doctype: true, ..Style::default() }),
        ("comments inserted", Style { comments: true, ..Style::default() }),
        ("processing instructions inserted", Style { pi: true, ..Style::default() }),
        ("text swapped with CDATA", Style { swap_cdata: true, ..Style::default() }),
        ("attribute values and text replaced", Style { alt_values: true, ..Style::default() }),
        ("text replaced by a reference to an entity declared in the DOCTYPE", Style { entity_text: true, ..Style::default() }),
        ("character data moved after the child elements", Style { text_last: true, ..Style::default() }),
        ("text replaced by the parent's tag name", Style { name_text: 1, ..Style::default() }),
        ("text replaced by the element's first attribute name", Style { name_text: 2, ..Style::default() }),
        ("all text replaced by one and the same word", Style { name_text: 3, ..Style::default() }),
    ];
    for (nm, st) in &variants {
        let alt: Vec<Vec<u8>> = nodes.iter().map(|n| write_doc(n, st).into_bytes()).collect();
        match render_with(&alt, false, 8192) {
            Some(got) if got == want => {}
            Some(_) => return Some((alt, format!("rendered output changes when {nm}"))),
            None => return Some((alt, format!("input rejected when {nm}"))),
        }
        // mixed: only the last document rewritten
        if nodes.len() > 1 {
            let mut mix = base.clone();
            let l = mix.len() - 1;
            mix[l] = alt[l].clone();
            match render_with(&mix, false, 8192) {
                Some(got) if got == want => {}
                _ => return Some((mix, format!("rendered output changes when {nm} (last document only)"))),
            }
        }
    }
    match render_with(&base, true, 8192) {
        Some(got) if got == want => {}
        _ => return Some((base.clone(), "rendered output changes when the reader expands empty elements".into())),
    }
    for cap in [1usize, 2, 3, 7, 64] {
        match render_with(&base, false, cap) {
            Some(got) if got == want => {}
            _ => return Some((base.clone(), format!("rendered output changes with a BufReader of capacity {cap}"))),
        }
    }
    None
}

fn search_c11(tier: &str, seed: u64) {
    let mut stats = Stats::new();
    let mut sample = String::new();
    let thorough = tier == "thorough";
    let mut seqs: Vec<Vec<Node>> = Vec::new();
    for d in docs(if thorough { 4 } else { 3 }, &lab_rich(), false) {
        seqs.push(vec![d]);
    }
    for d in docs(if thorough { 6 } else { 5 }, &lab_names(), false) {
        seqs.push(vec![d]);
    }
    let small: Vec<Node> = docs(2, &lab_rich(), false);
    for (i, a) in small.iter().enumerate() {
        for (j, b) in small.iter().enumerate() {
            if thorough || (i * 7 + j + seed as usize) % 5 == 0 {
                seqs.push(vec![a.clone(), b.clone()]);
            }
        }
    }
    for fam in threshold_family() {
        seqs.push(fam);
    }
    let mut rng = Rng(seed ^ 0xc11);
    for _ in 0..(if thorough { 20000 } else { 2000 }) {
        let k = 1 + rng.below(2);
        seqs.push((0..k).map(|_| random_doc(&mut rng, &["a", "b", "c"], &["x", "h:c", "y"], 3, 8)).collect());
    }
    // names that collide as Rust identifiers (the byte-for-byte comparison does not need readable names)
    for _ in 0..(if thorough { 8000 } else { 1000 }) {
        let k = 1 + rng.below(2);
        seqs.push((0..k).map(|_| random_doc(&mut rng, &["UserId", "UserID", "user_id", "p", "b"], &["x", "X"], 3, 10)).collect());
    }
    for s in &seqs {
        let key = s.iter().map(|n| write_doc(n, &Style::default())).collect::<Vec<_>>().join(" ; ");
        if stats.evals == 9 {
            sample = key.clone();
        }
        stats.note(&key);
        match std::panic::catch_unwind(|| check_c11(s)) {
            Ok(None) => {}
            Ok(Some((docs, e))) => {
                witness_docs("C11", &docs, &e);
                break;
            }
            Err(_) => {
                let docs: Vec<Vec<u8>> = s.iter().map(|n| write_doc(n, &Style::default()).into_bytes()).collect();
                witness_docs("C11", &docs, "the library panicked");
                break;
            }
        }
    }
    stats.print("document sequences (exhaustive small forests, seeded random larger ones, also over names that collide as identifiers), each rendered in the base spelling and after each listed rewrite (<x></x>, declaration+DOCTYPE, comments, PIs, text<->CDATA, other values/text, expand_empty_elements, BufReader capacities 1,2,3,7,64) and compared byte for byte", &sample);
}

// ------------------------------------------------------------------------------------------------ C08
#[derive(Debug, PartialEq)]
enum Verdict {
    Ok,
    Syntax(u64, String),
    Attr,
    Utf8,
    NoElement,
}

/// independent pass over the same reader events in stream order
fn oracle_c08(xml: &[u8], initial: bool) -> Verdict {
    let mut r = Reader::from_reader(xml);
    let mut buf = Vec::new();
    let mut elements = 0u32;
    loop {
        match r.read_event_into(&mut buf) {
            Err(e) => return Verdict::Syntax(r.buffer_position(), format!("{:?}", e)),
            Ok(Event::Eof) => break,
            Ok(Event::Start(e)) | Ok(Event::Empty(e)) => {
                if std::str::from_utf8(e.name().as_ref()).is_err() {
                    return Verdict::Utf8;
                }
                for a in e.attributes() {
                    match a {
                        Err(_) => return Verdict::Attr,
                        Ok(a) => {
                            if std::str::from_utf8(a.key.as_ref()).is_err() {
                                return Verdict::Utf8;
                            }
                        }
                    }
                }
                elements += 1;
            }
            Ok(Event::Text(t)) => {
                if std::str::from_utf8(&t.into_inner()).is_err() {
                    return Verdict::Utf8;
                }
            }
            Ok(Event::CData(t)) => {
                if std::str::from_utf8(&t.into_inner()).is_err() {
                    return Verdict::Utf8;
                }
            }
            Ok(_) => {}
        }
        buf.clear();
    }
    if initial && elements == 0 {
        return Verdict::NoElement;
    }
    Verdict::Ok
}

fn classify(r: &Result<Element<String>, ParserError>) -> Verdict {
    match r {
        Ok(_) => Verdict::Ok,
        Err(ParserError::QuickXmlError(p, e)) => Verdict::Syntax(*p, format!("{:?}", e)),
        Err(ParserError::AttrError(_)) => Verdict::Attr,
        Err(ParserError::FromUtf8Error(_)) => Verdict::Utf8,
        Err(ParserError::ParsingError(_)) => Verdict::NoElement,
    }
}

fn check_c08(first: &[u8], second: Option<&[u8]>) -> Option<String> {
    let want = oracle_c08(first, true);
    let got = into_struct(&mut Reader::from_reader(first));
    let gv = classify(&got);
    if gv != want {
        return Some(format!("into_struct verdict {:?}, independent pass over the reader events says {:?}", gv, want));
    }
    if let (Ok(root), Some(s)) = (got, second) {
        let want2 = oracle_c08(s, false);
        let got2 = classify(&extend_struct(&mut Reader::from_reader(s), root));
        if got2 != want2 {
            return Some(format!("extend_struct verdict {:?}, independent pass over the reader events says {:?}", got2, want2));
        }
    }
    None
}

fn mutate_bytes(rng: &mut Rng, base: &[u8]) -> Vec<u8> {
    let mut b = base.to_vec();
    let frags: [&[u8]; 14] = [b"<", b">", b"/", b"\"", b" x=\"1\"", b" x=\"1\" x=\"2\"", b"\xff", b"\xc3", b"<![CDATA[\xff]]>", b"<!--", b"&", b"<a\xff/>", b" \xff=\"1\"", b"</b>"];
    let n = 1 + rng.below(3);
    for _ in 0..n {
        if b.is_empty() {
            break;
        }
        match rng.below(5) {
            0 => {
                let i = rng.below(b.len());
                b.remove(i);
            }
            1 => {
                let i = rng.below(b.len() + 1);
                let f = frags[rng.below(frags.len())];
                for (k, x) in f.iter().enumerate() {
                    b.insert(i + k, *x);
                }
            }
            2 => {
                let i = rng.below(b.len());
                b.truncate(i);
            }
            3 => {
                let i = rng.below(b.len());
                b[i] = [0xffu8, b'<', b'>', b'"', b'=', b' ', 0xc0, b'/'][rng.below(8)];
            }
            _ => {
                // put the fragment right before a '>' or '/>' (inside a tag)
                let pos: Vec<usize> = b.iter().enumerate().filter(|(_, c)| **c == b'>').map(|(i, _)| i).collect();
                if !pos.is_empty() {
                    let mut i = pos[rng.below(pos.len())];
                    if i > 0 && b[i - 1] == b'/' {
                        i -= 1;
                    }
                    let f = frags[[4usize, 5, 12, 6][rng.below(4)]];
                    for (k, x) in f.iter().enumerate() {
                        b.insert(i + k, *x);
                    }
                }
            }
        }
    }
    b
}

fn corpus(tier: &str) -> Vec<Vec<u8>> {
    let mut out: Vec<Vec<u8>> = Vec::new();
    for d in docs(2, &lab_rich(), true) {
        out.push(write_doc(&d, &Style::default()).into_bytes());
    }
    for d in docs(if tier == "thorough" { 4 } else { 3 }, &lab_names(), false) {
        out.push(write_doc(&d, &Style { short_empty: false, decl: true, comments: true, ..Style::default() }).into_bytes());
    }
    for s in ["", " ", "<!-- c -->", "<?xml version=\"1.0\"?>", "<!DOCTYPE r><?pi?><!--c-->", "text only", "<r/>", "<r a=\"1\" a=\"2\"/>", "<r><a x=\"1\"/><a x=\"1\" x=\"2\"/></r>", "<r><a>t</a><a><![CDATA[c]]></a></r>"] {
        out.push(s.as_bytes().to_vec());
    }
    out
}

fn witness_bytes(prop: &str, inputs: &[&[u8]], what: &str) {
    let hx: Vec<String> = inputs.iter().map(|d| format!("\"{}\"", hex(d))).collect();
    let ds: Vec<String> = inputs.iter().map(|d| format!("\"{}\"", esc(&String::from_utf8_lossy(d)))).collect();
    println!("{{\"witness\":{{\"kind\":\"bytes\",\"property\":\"{}\",\"docs\":[{}],\"docs_hex\":[{}],\"violation\":\"{}\"}}}}", prop, ds.join(","), hx.join(","), esc(what));
}

/// can the harness still read the tree back from its Debug output?  (a hand-written Debug impl, a renamed field, ... would make every tree-level comparison vacuous)
fn observation_selftest() -> Option<String> {
    let root = match into_struct(&mut Reader::from_reader(&b"<r a=\"1\" b=\"2\"><k x=\"1\"/><k/><c>t</c><d><e/></d></r>"[..])) {
        Ok(r) => r,
        Err(e) => return Some(format!("the probe document does not parse: {e}")),
    };
    let v = match view(&root) {
        Ok(v) => v,
        Err(e) => return Some(format!("the Debug output of the tree cannot be read back: {e}")),
    };
    let attrs: Vec<(bool, &str)> = v.attrs.iter().map(|(m, a)| (*m, a.as_str())).collect();
    let kids: Vec<(bool, &str, bool, bool, usize, usize)> = v.kids.iter().map(|(m, k)| (*m, k.name.as_str(), k.standalone, k.text, k.attrs.len(), k.kids.len())).collect();
    let mut ks = kids.clone();
    ks.sort();
    let want_k = vec![(true, "c", true, true, 0usize, 0usize), (true, "d", true, false, 0, 1), (true, "k", false, false, 1, 0)];
    if v.name != "r" || attrs != vec![(true, "a"), (true, "b")] || ks != want_k {
        return Some(format!("the probe document <r a b><k x/><k/><c>t</c><d><e/></d></r> is read back as name {:?}, attributes {:?}, children {:?}", v.name, attrs, kids));
    }
    None
}

static WITNESS_SEEN: std::sync::atomic::AtomicBool = std::sync::atomic::AtomicBool::new(false);
fn mark_witness() {
    WITNESS_SEEN.store(true, std::sync::atomic::Ordering::SeqCst);
}
fn stats_no_witness() -> bool {
    !WITNESS_SEEN.load(std::sync::atomic::Ordering::SeqCst)
}
/// is the '>' at index gt the end of a start / empty tag (not of an end tag, comment, PI, declaration)?
fn tag_is_start(d: &[u8], gt: usize) -> bool {
    let mut j = gt;
    while j > 0 && d[j] != b'<' {
        j -= 1;
    }
    d[j] == b'<' && j + 1 < d.len() && d[j + 1].is_ascii_alphabetic()
}

/// `<r>` + `n` comments of 1 MiB + `<a></b></r>`, produced on the fly
struct FarInput {
    stage: u8,
    left: u64,
    off: usize,
    chunk: std::sync::Arc<Vec<u8>>,
    tail: &'static [u8],
}
impl std::io::Read for FarInput {
    fn read(&mut self, out: &mut [u8]) -> std::io::Result<usize> {
        loop {
            let src: &[u8] = match self.stage {
                0 => b"<r>",
                1 => &self.chunk[..],
                2 => self.tail,
                _ => return Ok(0),
            };
            if self.off >= src.len() {
                self.off = 0;
                if self.stage == 1 && self.left > 1 {
                    self.left -= 1;
                } else {
                    self.stage += 1;
                }
                continue;
            }
            let n = out.len().min(src.len() - self.off);
            out[..n].copy_from_slice(&src[self.off..self.off + n]);
            self.off += n;
            return Ok(n);
        }
    }
}
fn far_input(chunk: &std::sync::Arc<Vec<u8>>) -> Reader<BufReader<FarInput>> {
    Reader::from_reader(BufReader::with_capacity(1 << 16, FarInput { stage: 0, left: 4100, off: 0, chunk: chunk.clone(), tail: b"<a></b></r>" }))
}
fn check_c08_far() -> Option<String> {
    let mut c = b"<!--".to_vec();
    c.resize((1 << 20) - 3, b'c');
    c.extend_from_slice(b"-->");
    let chunk = std::sync::Arc::new(c);
    // independent pass
    let mut r = far_input(&chunk);
    let mut buf = Vec::new();
    let want = loop {
        match r.read_event_into(&mut buf) {
            Err(e) => break Verdict::Syntax(r.buffer_position(), format!("{:?}", e)),
            Ok(Event::Eof) => break Verdict::Ok,
            Ok(_) => {}
        }
        buf.clear();
    };
    if let Verdict::Syntax(p, _) = &want {
        if *p < (1u64 << 32) {
            return None; // the generator did not reach 2^32: nothing to compare
        }
    } else {
        return None;
    }
    let got = classify(&into_struct(&mut far_input(&chunk)));
    if got != want {
        return Some(format!("into_struct on a streamed input with a mismatched end tag beyond byte 2^32: {:?}, independent pass over the reader events says {:?}", got, want));
    }
    let root = into_struct(&mut Reader::from_reader(&b"<r/>"[..])).ok()?;
    let got2 = classify(&extend_struct(&mut far_input(&chunk), root));
    if got2 != want {
        return Some(format!("extend_struct on a streamed input with a mismatched end tag beyond byte 2^32: {:?}, independent pass over the reader events says {:?}", got2, want));
    }
    None
}

fn search_c08(tier: &str, seed: u64) {
    let mut stats = Stats::new();
    let base = corpus(tier);
    let mut rng = Rng(seed ^ 0xc08);
    let mut sample = String::new();
    let rounds = if tier == "thorough" { 40 } else { 6 };
    'outer: for round in 0..rounds {
        for (i, b) in base.iter().enumerate() {
            let first = if round == 0 { b.clone() } else { mutate_bytes(&mut rng, b) };
            let second_src = &base[(i * 31 + round * 7) % base.len()];
            let second = if round % 2 == 0 { second_src.clone() } else { mutate_bytes(&mut rng, second_src) };
            let key = format!("{} ; {}", hex(&first), hex(&second));
            if stats.evals == 40 {
                sample = format!("{} ; {}", String::from_utf8_lossy(&first), String::from_utf8_lossy(&second));
            }
            stats.note(&key);
            let (f2, s2) = (first.clone(), second.clone());
            match std::panic::catch_unwind(move || check_c08(&f2, Some(&s2))) {
                Ok(None) => {}
                Ok(Some(e)) => {
                    witness_bytes("C08", &[&first, &second], &e);
                    mark_witness();
                    break 'outer;
                }
                Err(_) => {
                    witness_bytes("C08", &[&first, &second], "the library panicked");
                    mark_witness();
                    break 'outer;
                }
            }
        }
    }
    // ---- systematic damage of deeper documents: every start tag in turn gets a duplicated attribute / a non-UTF-8 key / a non-UTF-8 name
    if stats_no_witness() {
        let mut rng2 = Rng(seed ^ 0xc08d);
        let mut deep: Vec<Vec<u8>> = Vec::new();
        for f in threshold_family() {
            for n in f {
                deep.push(write_doc(&n, &Style::default()).into_bytes());
            }
        }
        // start tags with 0..9 attributes, on a first-seen and on a repeated element (the damage lands behind them)
        for k in 0..10usize {
            let attrs: String = (0..k).map(|i| format!(" a{i}=\"v\"")).collect();
            deep.push(format!("<r><e{attrs}/></r>").into_bytes());
            deep.push(format!("<r><e/><e{attrs}>t</e></r>").into_bytes());
            deep.push(format!("<e{attrs}/>").into_bytes());
        }
        let nd = if tier == "thorough" { 1500 } else { 250 };
        for _ in 0..nd {
            deep.push(write_doc(&random_doc(&mut rng2, &["a", "b", "c"], &["x", "y"], 4, 16), &Style::default()).into_bytes());
        }
        'sys: for d in &deep {
            let tags: Vec<usize> = (0..d.len()).filter(|&i| d[i] == b'>' && tag_is_start(d, i)).collect();
            for &gt in &tags {
                let at = if gt > 0 && d[gt - 1] == b'/' { gt - 1 } else { gt };
                for frag in [&b" q=\"1\" q=\"2\""[..], &b" \xff=\"1\""[..], &b"\xff"[..], &b" q"[..], &b" q=1"[..]] {
                    let mut dmg = d.clone();
                    for (k, x) in frag.iter().enumerate() {
                        dmg.insert(at + k, *x);
                    }
                    for (first, second) in [(dmg.clone(), None), (d.clone(), Some(dmg.clone()))] {
                        stats.note(&format!("{} ; {:?}", hex(&first), second.as_ref().map(|s| hex(s))));
                        let (f2, s2) = (first.clone(), second.clone());
                        let res = std::panic::catch_unwind(move || check_c08(&f2, s2.as_deref()));
                        let what = match res {
                            Ok(None) => continue,
                            Ok(Some(e)) => e,
                            Err(_) => "the library panicked".to_string(),
                        };
                        match &second {
                            Some(s2) => witness_bytes("C08", &[&first, s2], &what),
                            None => witness_bytes("C08", &[&first], &what),
                        }
                        mark_witness();
                        break 'sys;
                    }
                }
            }
        }
    }
    // ---- an error position beyond 2^32: streamed input, nothing of that size is held in memory
    if stats_no_witness() {
        if let Some(e) = check_c08_far() {
            println!("{{\"witness\":{{\"kind\":\"far\",\"property\":\"C08\",\"docs\":[\"<r> + 4100 comments of 1 MiB + <a></b></r>  (streamed)\"],\"violation\":\"{}\"}}}}", esc(&e));
            mark_witness();
        }
        stats.evals += 2;
    }
    stats.print("pairs (initial input, extension input): well-formed small documents and the listed element-less inputs, unmodified and after 1-3 seeded byte-level mutations (delete, insert markup/duplicate attribute/invalid UTF-8 fragments, truncate, overwrite); verdict and error position compared with an independent pass over the reader events in stream order; plus the threshold family and seeded random documents of up to 16 elements (depth 4) (and start tags with 0-9 attributes) in which every start tag in turn receives a duplicated attribute, a non-UTF-8 attribute key, a non-UTF-8 name byte, a value-less and an unquoted attribute (as initial input and as extension); plus one streamed input of 4.3 GB whose mismatched end tag lies beyond byte 2^32", &sample);
}

// ------------------------------------------------------------------------------------------------ C07
/// C07 with a watchdog: the case runs in its own thread; no answer within 20 s counts as "does not terminate"
fn check_c07(inputs: &[Vec<u8>], trim: bool, expand: bool, check_end: bool, cap: usize) -> Option<String> {
    let (tx, rx) = std::sync::mpsc::channel();
    let inputs2 = inputs.to_vec();
    std::thread::Builder::new()
        .stack_size(8 << 20)
        .spawn(move || {
            let r = check_c07_inner(&inputs2, trim, expand, check_end, cap);
            let _ = tx.send(r);
        })
        .ok()?;
    match rx.recv_timeout(std::time::Duration::from_secs(20)) {
        Ok(r) => r,
        Err(_) => Some("no result within 20 s: parsing / extending / rendering does not terminate (or is absurdly slow) on this input".into()),
    }
}

fn check_c07_inner(inputs: &[Vec<u8>], trim: bool, expand: bool, check_end: bool, cap: usize) -> Option<String> {
    let inputs = inputs.to_vec();
    let r = std::panic::catch_unwind(move || {
        let mk = |d: &Vec<u8>| {
            let mut r = Reader::from_reader(BufReader::with_capacity(cap.max(1), std::io::Cursor::new(d.clone())));
            let c = r.config_mut();
            c.trim_text(trim);
            c.expand_empty_elements = expand;
            c.check_end_names = check_end;
            r
        };
        let mut root = match into_struct(&mut mk(&inputs[0])) {
            Ok(r) => r,
            Err(_) => return,
        };
        for d in &inputs[1..] {
            root = match extend_struct(&mut mk(d), root.clone()) {
                Ok(r) => r,
                Err(_) => root,
            };
        }
        for o in [Options::quick_xml_de(), Options::serde_xml_rs(), Options::quick_xml_de().derive("")] {
            let mut o2 = o;
            let _ = root.to_serde_struct(&o2);
            o2.sort = SortBy::XmlName;
            let _ = root.to_serde_struct(&o2);
        }
    });
    match r {
        Ok(()) => None,
        Err(p) => {
            let msg = p.downcast_ref::<String>().cloned().or_else(|| p.downcast_ref::<&str>().map(|s| s.to_string())).unwrap_or_default();
            Some(format!("panic: {msg}"))
        }
    }
}

fn search_c07(tier: &str, seed: u64) {
    std::panic::set_hook(Box::new(|_| {}));
    let mut stats = Stats::new();
    let mut rng = Rng(seed ^ 0xc07);
    let mut sample = String::new();
    let thorough = tier == "thorough";
    // names, attribute names and text drawn from pools with multi-byte characters at many byte offsets and lengths
    let uni = ["é", "ß", "水", "𝄞", "ж"];
    let mut names: Vec<String> = vec!["a".into(), "type".into(), "xmlns:a".into(), "x:y".into(), "a-b".into(), "Self".into()];
    for len in 0..9 {
        for u in uni.iter() {
            names.push(format!("{}{}{}", "abcdefgh".chars().take(len).collect::<String>(), u, "z"));
            names.push(format!("{}:{}{}", "abcdefgh".chars().take(len).collect::<String>(), u, "z"));
        }
    }
    let mut texts: Vec<String> = vec!["t".into(), " ".into(), "\n  \n".into()];
    for len in [0usize, 1, 2, 3, 7, 15, 31, 63, 127, 254, 255, 256, 257, 511, 1023, 4095] {
        for u in uni.iter() {
            texts.push(format!("{}{}{}", "x".repeat(len), u, u));
            texts.push(format!(" {}{}", "y".repeat(len), u));
        }
    }
    // deterministic big documents: 300 child / attribute names that collide after identifier conversion, 300 repetitions
    // of one element, 300 distinct siblings, nesting depth 200
    {
        let seps = ['.', '-', '_'];
        let mut colliding: Vec<String> = Vec::new();
        let mut frontier: Vec<String> = vec![String::new()];
        while colliding.len() < 300 {
            let mut next = Vec::new();
            for f in &frontier {
                for c in seps {
                    let mut g = f.clone();
                    g.push(c);
                    colliding.push(format!("a{}b", g));
                    next.push(g);
                }
            }
            frontier = next;
        }
        colliding.truncate(300);
        let mut kids = String::from("<r>");
        for nm in &colliding {
            kids.push_str(&format!("<{nm}/>"));
        }
        kids.push_str("</r>");
        let mut attrs = String::from("<r><e");
        for nm in &colliding {
            attrs.push_str(&format!(" {nm}=\"v\""));
        }
        attrs.push_str("/></r>");
        let mut rep = String::from("<r><p>");
        for _ in 0..300 {
            rep.push_str("<c/>");
        }
        rep.push_str("</p><p/></r>");
        let mut wide = String::from("<r>");
        for i in 0..300 {
            wide.push_str(&format!("<n{i} a{i}=\"v\">t</n{i}>"));
        }
        wide.push_str("</r>");
        let reps: Vec<Vec<u8>> = (0..40).map(|_| "<r><c/></r>".as_bytes().to_vec()).collect();
        let mut cases: Vec<Vec<Vec<u8>>> = vec![vec![kids.into_bytes()], vec![attrs.into_bytes()], vec![rep.clone().into_bytes()], vec![wide.into_bytes()], reps];
        cases.push(vec![rep.clone().into_bytes(), rep.into_bytes()]);
        for inputs in cases {
            let key = inputs.iter().map(|x| hex(&x[..x.len().min(64)])).collect::<Vec<_>>().join(";");
            stats.note(&key);
            if let Some(e) = check_c07(&inputs, false, false, true, 8192) {
                let refs: Vec<&[u8]> = inputs.iter().map(|x| x.as_slice()).collect();
                witness_bytes("C07", &refs, &e);
                stats.print("deterministic big documents (300 colliding identifiers, 300 repetitions, 300 siblings, 40 documents)", "");
                std::process::exit(0);
            }
        }
    }
    let n = if thorough { 40000 } else { 4000 };
    for it in 0..n {
        let k = 1 + rng.below(2);
        let mut inputs = Vec::new();
        for _ in 0..k {
            let mut s = String::from("<r>");
            let depth = 1 + rng.below(3);
            let mut open: Vec<String> = Vec::new();
            for _ in 0..(1 + rng.below(5)) {
                let nm = names[rng.below(names.len())].clone();
                s.push('<');
                s.push_str(&nm);
                for _ in 0..rng.below(3) {
                    s.push_str(&format!(" {}=\"v\"", names[rng.below(names.len())]));
                }
                match rng.below(3) {
                    0 => s.push_str("/>"),
                    1 => {
                        s.push('>');
                        if rng.chance(1, 2) {
                            s.push_str(&texts[rng.below(texts.len())]);
                        } else {
                            s.push_str(&format!("<![CDATA[{}]]>", texts[rng.below(texts.len())]));
                        }
                        s.push_str(&format!("</{}>", nm));
                    }
                    _ => {
                        if open.len() < depth {
                            s.push('>');
                            open.push(nm);
                        } else {
                            s.push_str("/>");
                        }
                    }
                }
            }
            while let Some(nm) = open.pop() {
                s.push_str(&format!("</{}>", nm));
            }
            s.push_str("</r>");
            let mut b = s.into_bytes();
            if rng.chance(1, 3) {
                b = mutate_bytes(&mut rng, &b);
            }
            inputs.push(b);
        }
        // nesting depth 200
        if it % 97 == 0 {
            let d = 200;
            let mut s = String::new();
            for _ in 0..d {
                s.push_str("<n a=\"1\">");
            }
            for _ in 0..d {
                s.push_str("</n>");
            }
            inputs[0] = s.into_bytes();
        }
        let (trim, expand, ce) = (rng.chance(1, 2), rng.chance(1, 2), rng.chance(3, 4));
        let cap = [1usize, 2, 5, 64, 8192][rng.below(5)];
        let key = inputs.iter().map(|x| hex(x)).collect::<Vec<_>>().join(";") + &format!("|{trim}{expand}{ce}{cap}");
        if it == 11 {
            sample = inputs.iter().map(|x| String::from_utf8_lossy(x).into_owned()).collect::<Vec<_>>().join(" ; ");
        }
        stats.note(&key);
        if let Some(e) = check_c07(&inputs, trim, expand, ce, cap) {
            let refs: Vec<&[u8]> = inputs.iter().map(|x| x.as_slice()).collect();
            let hx: Vec<String> = refs.iter().map(|d| format!("\"{}\"", hex(d))).collect();
            let ds: Vec<String> = refs.iter().map(|d| format!("\"{}\"", esc(&String::from_utf8_lossy(d)))).collect();
            println!("{{\"witness\":{{\"kind\":\"bytes\",\"property\":\"C07\",\"docs\":[{}],\"docs_hex\":[{}],\"config\":{{\"trim_text\":{trim},\"expand_empty_elements\":{expand},\"check_end_names\":{ce},\"capacity\":{cap}}},\"violation\":\"{}\"}}}}", ds.join(","), hx.join(","), esc(&e));
            break;
        }
    }
    stats.print("seeded random documents (1-2 per run) whose element names, attribute names and text/CDATA come from pools with multi-byte characters at byte offsets 0-8 and text lengths 0..4095, a third of them byte-mutated, every 97th nested 200 deep; random reader configuration (trim_text, expand_empty_elements, check_end_names, BufReader capacity 1,2,5,64,8192); parse, extend and render with 3 option sets x 2 sort orders under catch_unwind and a 20 s watchdog (overflow checks on); preceded by deterministic big documents: 300 child / attribute names that collide after identifier conversion, 300 repetitions, 300 siblings, 40 documents", &sample);
}

// ------------------------------------------------------------------------------------------------ C15
type L = Vec<Necessity<u8>>;
fn show_list(l: &L) -> String {
    if l.is_empty() {
        return "-".into();
    }
    l.iter().map(|n| match n { Necessity::Mandatory(x) => format!("M{x}"), Necessity::Optional(x) => format!("O{x}") }).collect::<Vec<_>>().join(",")
}
fn read_list(s: &str) -> L {
    if s == "-" || s.is_empty() {
        return vec![];
    }
    s.split(',').map(|t| {
        let v: u8 = t[1..].parse().unwrap();
        if t.starts_with('M') { Necessity::Mandatory(v) } else { Necessity::Optional(v) }
    }).collect()
}
fn check_merge(a: &L, b: &L) -> Option<String> {
    let got = merge_necessity(a.clone(), b.clone());
    let is_m = |l: &L, x: u8| l.iter().any(|n| matches!(n, Necessity::Mandatory(y) if *y == x));
    let has = |l: &L, x: u8| l.iter().any(|n| *n.inner_t() == x);
    // statement: a's items in order, then b-only items in b's order; Mandatory iff Mandatory in both
    let mut want: L = Vec::new();
    for n in a {
        let x = *n.inner_t();
        want.push(if is_m(a, x) && is_m(b, x) { Necessity::Mandatory(x) } else { Necessity::Optional(x) });
    }
    for n in b {
        let x = *n.inner_t();
        if !has(a, x) {
            want.push(Necessity::Optional(x));
        }
    }
    if got != want {
        return Some(format!("merge_necessity([{}], [{}]) = [{}], the statement determines [{}]", show_list(a), show_list(b), show_list(&got), show_list(&want)));
    }
    None
}
fn dupfree_lists(alpha: u8, maxlen: usize) -> Vec<L> {
    let mut out: Vec<L> = vec![vec![]];
    let mut frontier: Vec<L> = vec![vec![]];
    for _ in 0..maxlen {
        let mut next = Vec::new();
        for l in &frontier {
            for x in 0..alpha {
                if l.iter().any(|n| *n.inner_t() == x) {
                    continue;
                }
                for m in [true, false] {
                    let mut l2 = l.clone();
                    l2.push(if m { Necessity::Mandatory(x) } else { Necessity::Optional(x) });
                    next.push(l2);
                }
            }
        }
        out.extend(next.iter().cloned());
        frontier = next;
    }
    out
}
fn search_c15(tier: &str, _seed: u64) {
    let mut stats = Stats::new();
    let (alpha, maxlen) = if tier == "thorough" { (5, 4) } else { (4, 3) };
    let lists = dupfree_lists(alpha, maxlen);
    let mut sample = String::new();
    'o: for a in &lists {
        for b in &lists {
            let key = format!("{}|{}", show_list(a), show_list(b));
            if stats.evals == 5000 {
                sample = key.clone();
            }
            stats.note(&key);
            let (a2, b2) = (a.clone(), b.clone());
            match std::panic::catch_unwind(move || check_merge(&a2, &b2)) {
                Ok(None) => {}
                Ok(Some(e)) => {
                    println!("{{\"witness\":{{\"kind\":\"merge\",\"property\":\"C15\",\"a\":\"{}\",\"b\":\"{}\",\"violation\":\"{}\"}}}}", show_list(a), show_list(b), esc(&e));
                    stats.print("EXHAUSTIVE small pairs (stopped at the first counterexample)", &sample);
                    return;
                }
                Err(_) => {
                    println!("{{\"witness\":{{\"kind\":\"merge\",\"property\":\"C15\",\"a\":\"{}\",\"b\":\"{}\",\"violation\":\"merge_necessity panicked\"}}}}", show_list(a), show_list(b));
                    break 'o;
                }
            }
        }
    }
    let mut found = false;
    let exhaustive_evals = stats.evals;
    // beyond the exhaustive bound: seeded random duplicate-free lists of up to 12 items over an alphabet of 16
    let mut rng = Rng(_seed ^ 0xc15);
    let rounds = if tier == "thorough" { 400000 } else { 60000 };
    for _ in 0..rounds {
        let mut mk = |rng: &mut Rng| -> L {
            let len = rng.below(13);
            let mut pool: Vec<u8> = (0..16).collect();
            let mut l: L = Vec::new();
            for _ in 0..len {
                let x = pool.remove(rng.below(pool.len()));
                l.push(if rng.chance(1, 2) { Necessity::Mandatory(x) } else { Necessity::Optional(x) });
            }
            l
        };
        let (a, b) = (mk(&mut rng), mk(&mut rng));
        stats.note(&format!("{}|{}", show_list(&a), show_list(&b)));
        let (a2, b2) = (a.clone(), b.clone());
        if let Ok(Some(e)) = std::panic::catch_unwind(move || check_merge(&a2, &b2)) {
            println!("{{\"witness\":{{\"kind\":\"merge\",\"property\":\"C15\",\"a\":\"{}\",\"b\":\"{}\",\"violation\":\"{}\"}}}}", show_list(&a), show_list(&b), esc(&e));
            found = true;
            break;
        }
    }
    let _ = found;
    stats.print(&format!("EXHAUSTIVE: all pairs of duplicate-free tagged lists over an alphabet of {alpha} items with length <= {maxlen} ({exhaustive_evals} pairs); then {rounds} seeded random pairs of duplicate-free lists of up to 12 items over an alphabet of 16"), &sample);
}

// ------------------------------------------------------------------------------------------------ C16
#[derive(Clone, Debug)]
struct MKid {
    name: String,
    mandatory: bool,
    id: String, // unique attribute that identifies the subtree
}
fn check_ops(ops: &[String]) -> Option<String> {
    let mut root: Element<String> = Element::new("root".to_string(), vec![]);
    let mut model: Vec<MKid> = Vec::new();
    let mut detached: Option<(Element<String>, MKid)> = None;
    let mut fresh = 0;
    let mut root_standalone = true;
    let mut root_text = false;
    for (step, op) in ops.iter().enumerate() {
        let (o, arg) = op.split_once(':').unwrap_or((op.as_str(), ""));
        let name = arg.to_string();
        match o {
            "down" => {
                // move the root's child `name` below the root's child "b" (a deeper tree: names recur at several positions)
                if name != "b" && root.get_child(&"b".to_string()).is_some() {
                    if let Some(n) = root.remove_child(&name) {
                        if let Some(i) = model.iter().position(|k| k.name == name) {
                            model.remove(i);
                        }
                        if let Some(b) = root.get_child_mut(&"b".to_string()) {
                            b.inner_t_mut().add_unique_child(n.into_inner_t());
                        }
                    }
                }
            }
            "cmul" => {
                if let Some(c) = root.get_child_mut(&name) {
                    c.inner_t_mut().set_multiple();
                }
            }
            "ctext" => {
                if let Some(c) = root.get_child_mut(&name) {
                    c.inner_t_mut().text = Some("t".to_string());
                }
            }
            "add" | "addw" | "addn" => {
                fresh += 1;
                let id = format!("id{fresh}");
                // "addw": a child with seven attributes (the identifying one first)
                let mut at = vec![id.clone()];
                if o == "addw" {
                    for k in 0..6 {
                        at.push(format!("w{k}"));
                    }
                }
                let mut c = Element::new(name.clone(), at);
                // "addn": the grandchild is called like one of the children, so that the name occurs at several positions
                let mut g = Element::new(if o == "addn" { "a".to_string() } else { "g".to_string() }, vec![]);
                g.text = Some(id.clone());
                c.add_unique_child(g);
                root.add_unique_child(c);
                if !model.iter().any(|k| k.name == name) {
                    model.push(MKid { name: name.clone(), mandatory: true, id });
                }
            }
            "opt" => {
                root.set_child_optional(&name);
                if let Some(i) = model.iter().position(|k| k.name == name) {
                    let mut k = model.remove(i);
                    k.mandatory = false;
                    model.push(k);
                }
            }
            "rem" => {
                let r = root.remove_child(&name);
                let mi = model.iter().position(|k| k.name == name);
                match (r, mi) {
                    (Some(n), Some(i)) => {
                        let k = model.remove(i);
                        let was_m = matches!(n, Necessity::Mandatory(_));
                        if was_m != k.mandatory {
                            return Some(format!("step {step} {op}: removed child has the wrong necessity"));
                        }
                        detached = Some((n.into_inner_t(), k));
                    }
                    (None, None) => {}
                    (Some(_), None) => return Some(format!("step {step} {op}: removal returned a child although none has that name")),
                    (None, Some(_)) => return Some(format!("step {step} {op}: removal found nothing although a child has that name")),
                }
            }
            "readd" => {
                if let Some((e, k)) = detached.take() {
                    root.add_unique_child(e);
                    if !model.iter().any(|x| x.name == k.name) {
                        model.push(MKid { mandatory: true, ..k });
                    }
                }
            }
            "attr" => {
                root = root.merge_attr(vec![Necessity::Mandatory(name.clone())]);
            }
            "multi" => {
                root.set_multiple();
                root_standalone = false;
            }
            "text" => {
                root.text = Some("t".into());
                root_text = true;
            }
            _ => return None,
        }
        // compare with the ordered-map model after every step
        let v = match view(&root) {
            Ok(v) => v,
            Err(_) => return None,
        };
        let got: Vec<(String, bool, String)> = v.kids.iter().map(|(m, c)| (c.name.clone(), *m, c.attrs.first().map(|a| a.1.clone()).unwrap_or_default())).collect();
        let want: Vec<(String, bool, String)> = model.iter().map(|k| (k.name.clone(), k.mandatory, k.id.clone())).collect();
        let mut names: Vec<&String> = got.iter().map(|g| &g.0).collect();
        names.sort();
        let before = names.len();
        names.dedup();
        if names.len() != before {
            return Some(format!("after step {step} ({op}) two children share a name: {:?}", got));
        }
        // C16 says nothing about the internal order of the children vector: compared as sets
        let (mut gs, mut ws) = (got.clone(), want.clone());
        gs.sort();
        ws.sort();
        if gs != ws {
            return Some(format!("after step {step} ({op}) children (name, mandatory, subtree id) are {:?}, the map model has {:?}", got, want));
        }
        for (_, c) in &v.kids {
            // subtree preserved: the grandchild carrying the id text is still there
            // (looked up by name, not by index: the order of the vector is nobody's property)
            if !c.kids.iter().any(|k| (k.1.name == "g" || k.1.name == "a") && k.1.text) {
                return Some(format!("after step {step} ({op}) the subtree of child {:?} changed", c.name));
            }
        }
        for k in &model {
            match root.get_child(&k.name) {
                Some(n) if n.inner_t().name == k.name => {}
                _ => return Some(format!("after step {step} ({op}) lookup of {:?} does not return that child", k.name)),
            }
        }
        if v.standalone != root_standalone || v.text != root_text {
            return Some(format!("after step {step} ({op}) root flags changed unexpectedly"));
        }
    }
    // the rendering reflects exactly the tree: children, attributes, optionality, multiplicity, text
    if let Ok(v) = view(&root) {
        if let Some(e) = cmp_rendered(&root.to_serde_struct(&Options::quick_xml_de()), &s_from_v(&v), true) {
            return Some(format!("the rendering does not reflect the tree built by the operations: {e}"));
        }
    }
    // rendering reflects the children (names are plain single letters: field ident == name)
    let out = root.to_serde_struct(&Options::quick_xml_de());
    let st = parse_rendered(&out);
    if let Some(first) = st.first() {
        for k in &model {
            let f: Vec<&(String, String)> = first.1.iter().filter(|(id, _)| *id == k.name).collect();
            if f.len() != 1 {
                return Some(format!("rendered struct has {} fields for child {:?}", f.len(), k.name));
            }
            let opt = f[0].1.starts_with("Option<");
            if opt == k.mandatory {
                return Some(format!("rendered field for child {:?} has type {} but the child is {}", k.name, f[0].1, if k.mandatory { "mandatory" } else { "optional" }));
            }
        }
        let mut seen = HashSet::new();
        for s in &st {
            if !seen.insert(&s.0) {
                return Some(format!("struct {} is defined twice in the rendering", s.0));
            }
        }
    }
    None
}
fn search_c16(tier: &str, _seed: u64) {
    let mut stats = Stats::new();
    let alphabet: Vec<String> = ["add:a", "add:b", "addn:b", "opt:a", "opt:b", "rem:a", "readd", "down:a", "cmul:a", "ctext:a", "attr:k", "text"].iter().map(|s| s.to_string()).collect();
    let maxlen = if tier == "thorough" { 6 } else { 5 };
    let mut sample = String::new();
    let mut idx = vec![0usize; 0];
    // iterative deepening: all sequences of length 1..=maxlen
    'o: for len in 1..=maxlen {
        idx = vec![0; len];
        loop {
            let ops: Vec<String> = idx.iter().map(|i| alphabet[*i].clone()).collect();
            let key = ops.join(" ");
            if stats.evals == 3000 {
                sample = key.clone();
            }
            stats.note(&key);
            let o2 = ops.clone();
            match std::panic::catch_unwind(move || check_ops(&o2)) {
                Ok(None) => {}
                Ok(Some(e)) => {
                    println!("{{\"witness\":{{\"kind\":\"ops\",\"property\":\"C16\",\"ops\":\"{}\",\"violation\":\"{}\"}}}}", key, esc(&e));
                    break 'o;
                }
                Err(_) => {
                    println!("{{\"witness\":{{\"kind\":\"ops\",\"property\":\"C16\",\"ops\":\"{}\",\"violation\":\"the library panicked\"}}}}", key);
                    break 'o;
                }
            }
            // next
            let mut p = len;
            loop {
                if p == 0 {
                    break;
                }
                p -= 1;
                idx[p] += 1;
                if idx[p] < alphabet.len() {
                    break;
                }
                idx[p] = 0;
                if p == 0 {
                    p = usize::MAX;
                    break;
                }
            }
            if p == usize::MAX {
                break;
            }
        }
    }
    let _ = idx;
    // beyond the exhaustive bound: seeded random sequences of 6..16 operations over four names
    let mut rng = Rng(_seed ^ 0xc16);
    let mut big: Vec<String> = ["readd", "attr:k", "multi", "text"].iter().map(|s| s.to_string()).collect();
    for nm in ["a", "b", "c", "d", "e", "f", "g", "h"] {
        for op in ["add", "addn", "addw", "opt", "opt", "rem", "cmul", "ctext", "down"] {
            big.push(format!("{op}:{nm}"));
        }
    }
    let rounds = if tier == "thorough" { 200000 } else { 20000 };
    for _ in 0..rounds {
        let len = 6 + rng.below(19);
        let ops: Vec<String> = (0..len).map(|_| big[rng.below(big.len())].clone()).collect();
        let key = ops.join(" ");
        stats.note(&key);
        let o2 = ops.clone();
        if let Ok(Some(e)) = std::panic::catch_unwind(move || check_ops(&o2)) {
            println!("{{\"witness\":{{\"kind\":\"ops\",\"property\":\"C16\",\"ops\":\"{}\",\"violation\":\"{}\"}}}}", key, esc(&e));
            break;
        }
    }
    // trees of any shape and depth (built by the parser through the same operations): unique names at every level and
    // renderer-vs-tree conformance
    let mut hit = false;
    sequences(tier, _seed, |xs| {
        let key = xs.iter().map(|x| String::from_utf8_lossy(x).into_owned()).collect::<Vec<_>>().join("\u{1}");
        stats.note(&key);
        match std::panic::catch_unwind(|| check_docs("C16", xs)) {
            Ok(Some(e)) => {
                witness_docs("C16", xs, &e);
                hit = true;
                true
            }
            _ => false,
        }
    });
    let _ = hit;
    stats.print(&format!("EXHAUSTIVE: all sequences of length <= {maxlen} over the operations add a|b (fresh child with an identifying subtree; b's grandchild is called a), mark optional a|b, remove a|b, re-add the last removed child, merge attribute, set multiple, set text, child set multiple a|b, child set text a, move child a below child b, add c; compared after every step with a map model (children compared as a set: name, optionality, subtree); rendering checked at the end; then seeded random sequences of 6-24 operations over eight names (children with one or seven attributes); then the trees of the document sequences used for the parser properties (any shape and depth): unique names at every level, renderer-vs-tree conformance"), &sample);
}

// ------------------------------------------------------------------------------------------------ main
fn read_files(paths: &[String]) -> Vec<Vec<u8>> {
    paths.iter().map(|p| std::fs::read(p).expect("read input file")).collect()
}

fn main() {
    let a: Vec<String> = std::env::args().collect();
    if a.len() < 2 {
        eprintln!("usage: see source");
        std::process::exit(2);
    }
    match a[1].as_str() {
        "search" => {
            let (prop, tier) = (a[2].as_str(), a[3].as_str());
            let seed: u64 = a.get(4).and_then(|s| s.parse().ok()).unwrap_or(0);
            std::panic::set_hook(Box::new(|_| {}));
            if ["C01", "C03", "C06", "C09", "C16"].contains(&prop) {
                if let Some(why) = observation_selftest() {
                    // the tree is observed through its Debug output; if that cannot be read back the search would be blind
                    println!("{{\"stats\":{{\"evaluations\":0,\"distinct_nontrivial\":0,\"rule\":\"BLIND: {}\",\"sample\":\"\"}}}}", esc(&why));
                    return;
                }
            }
            match prop {
                "C15" => search_c15(tier, seed),
                "C16" => search_c16(tier, seed),
                "C01" | "C03" | "C09" => search_tree_prop(prop, tier, seed),
                "C05" => search_c05(tier, seed),
                "C06" => search_c06(tier, seed),
                "C07" => search_c07(tier, seed),
                "C08" => search_c08(tier, seed),
                "C11" => search_c11(tier, seed),
                _ => std::process::exit(2),
            }
        }
        "docs" => {
            let prop = a[2].as_str();
            let ds = read_files(&a[3..]);
            // a panic of the library on a replayed input is a violation too (it was reported as "the library panicked")
            std::panic::set_hook(Box::new(|_| {}));
            let r = match std::panic::catch_unwind(|| match prop {
                "C05" => check_c05(&ds, 40),
                "C06" => check_c06(&ds),
                "C11" => {
                    let nodes: Option<Vec<Node>> = ds.iter().map(|d| dom(d)).collect();
                    nodes.and_then(|n| check_c11(&n)).map(|x| x.1)
                }
                _ => check_docs(prop, &ds),
            }) {
                Ok(r) => r,
                Err(_) => Some("the library panicked".to_string()),
            };
            match r {
                Some(e) => {
                    println!("VIOLATED: {e}");
                    std::process::exit(1)
                }
                None => println!("holds on this input"),
            }
        }
        "far" => match check_c08_far() {
            Some(e) => {
                println!("VIOLATED: {e}");
                std::process::exit(1)
            }
            None => println!("holds on this input"),
        },
        "bytes" => {
            let prop = a[2].as_str();
            let ds = read_files(&a[3..]);
            let r = match prop {
                "C08" => {
                    std::panic::set_hook(Box::new(|_| {}));
                    match std::panic::catch_unwind(|| check_c08(&ds[0], ds.get(1).map(|v| v.as_slice()))) {
                        Ok(r) => r,
                        Err(_) => Some("the library panicked".to_string()),
                    }
                }
                _ => {
                    std::panic::set_hook(Box::new(|_| {}));
                    let mut res = None;
                    for (t, e, c) in [(false, false, true), (true, false, true), (false, true, true), (true, true, false)] {
                        for cap in [1usize, 64, 8192] {
                            if res.is_none() {
                                res = check_c07(&ds, t, e, c, cap);
                            }
                        }
                    }
                    res
                }
            };
            match r {
                Some(e) => {
                    println!("VIOLATED: {e}");
                    std::process::exit(1)
                }
                None => println!("holds on this input"),
            }
        }
        "merge" => match check_merge(&read_list(&a[2]), &read_list(&a[3])) {
            Some(e) => {
                println!("VIOLATED: {e}");
                std::process::exit(1)
            }
            None => println!("holds on this input"),
        },
        "ops" => match check_ops(&a[2..].to_vec()) {
            Some(e) => {
                println!("VIOLATED: {e}");
                std::process::exit(1)
            }
            None => println!("holds on this input"),
        },
        _ => std::process::exit(2),
    }
}
